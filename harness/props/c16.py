"""C16 - no request causes an uncontrolled failure; injected errors fire exactly as asked.
Theorems: coq/Props/C16.v (error-injection state machine over any request sequence; option readers).
Correspondence: request sequences of one session through the real app vs Model/ErrModel.v; DashOption
from_string on hostile text vs Model/OptErrModel.parse_any.  Search (not a proof, see DESIGN.md): every
GET route x registered option name x hostile values, streams with missing pieces, corrupted MP4 input
fed to the parser and to the upload / index endpoints - any 5xx that was not asked for, any exception
type other than the reported ones, any request running past the wall-clock limit is a violation."""
import collections
import datetime
import io
import os
import signal
import traceback
import urllib.parse

from .. import common

RULE = ('sessions of 6..40 media / manifest requests with 1..2 (code, position) entries (codes 404 410 500 503 504; positions as '
        'segment numbers, update counts and wall-clock times), failures in {absent, 0..3}, positions hit 0..12 times, interleaved '
        'content types; option readers on hostile ASCII text (signs, underscores, whitespace, overflow-size numbers, separators); '
        'every GET route of the URL map x every registered option name x hostile values x {vod, live} x single / multi-period; '
        'streams without encrypted / audio / timing-reference media; MP4 input derived from fixtures by truncation, bit flips and '
        'size-field edits. Non-trivial: a session in which >= 1 synthetic error fired and >= 1 addressed request passed; a fuzz '
        'request answered 200 or 4xx after option parsing; distinct by input')

HOSTILE = ['', 'none', '-1', '0', '1', '2', '99999999999999999999', '-99999999999999999999', '1.5', 'abc', '1,2', '=', '503', '503=',
           '=5', '503=5', '404=2,503=3', '503=abc', 'a=b=c', '2024-01-01T00:00:00Z', '2024-13-45T99:99:99Z', '12:00:00Z', 'true',
           '%', '%zz', '\x00', 'é', '<x>&"\'', '-0', '1e9', 'nan', 'inf', '-inf', '[1]', "{'a':1}", 'all', 'playready',
           'playready-foo', 'foo-moov', 'clearkey-', ',', ',,', 'epoch', 'now', 'today', 'year', 'month', '0x10', ' 5 ', '+5', '1_0',
           '٣', 'ping', 'scte35', 'ping,bogus', 'zz', '5,zz', 'P1D', 'PT0S', 'direct', 'xsd', 'bogus', '4294967296', '65536',
           '0.0', '-1.5', 'null', 'None', 'True', 'NONE']

LIMIT_S = 20


class Watch:
    """records exceptions the app raised while serving a request, and bounds its wall-clock time"""

    def __init__(self, app):
        import flask
        self.excs = []
        flask.got_request_exception.connect(self._rec, app)
        signal.signal(signal.SIGALRM, self._alarm)

    def _rec(self, sender, exception, **kw):
        tb = traceback.extract_tb(exception.__traceback__)
        own = [f for f in tb if '/dashlive/' in f.filename]
        last = (own or tb)[-1]
        self.excs.append((type(exception).__name__, '%s:%s' % (last.filename.split('/dashlive/')[-1], last.name), str(exception)[:80]))

    @staticmethod
    def _alarm(sig, frm):
        raise TimeoutError('request ran past the wall-clock limit')

    def get(self, client, url, method='get', **kw):
        """-> (status or 'HANG', site) where site describes the exception if the answer was a real 5xx"""
        del self.excs[:]
        signal.alarm(LIMIT_S)
        try:
            r = getattr(client, method)(url, **kw)
            st = r.status_code
        except TimeoutError:
            return 'HANG', 'no answer within %d s' % LIMIT_S, None
        except Exception as e:  # noqa   (the test client re-raises only with propagate_exceptions)
            return 'RAISE', type(e).__name__, None
        finally:
            signal.alarm(0)
        site = None
        if st >= 500 and self.excs:
            site = '%s@%s' % (self.excs[0][0], self.excs[0][1])
        return st, site, r


def option_names():
    from dashlive.server.options.repository import OptionsRepository
    out = []
    for o in OptionsRepository.get_dash_options():
        names = o.cgi_name if isinstance(o.cgi_name, list) else [o.cgi_name]
        for n in names:
            out.append((n, o))
    return out


# ------------------------------------------------------------------ error injection sessions
def closed_form(code, pos, fc, segs):
    """oracle written from the property text: the configured number of failures, then one success"""
    out, hits = [], 0
    for g in segs:
        if g != pos:
            out.append(None)
            continue
        if code < 500 or fc is None:
            out.append(code)
        else:
            out.append(code if hits % (fc + 1) < fc else None)
        hits += 1
    return out


USAGE = {'video': 1, 'audio': 2, 'text': 3}
TRACK = {'video': ('bbb_v7', 'm4v', 'verr'), 'audio': ('bbb_a1', 'm4a', 'aerr'), 'text': ('bbb_t1', 'mp4', 'terr')}


def inject_suite(ctx, env, watch):
    from ..appenv import Clock, utc
    rng = ctx.rng
    sessions = 40 if ctx.quick() else 600
    reqs, meta = [], []
    with Clock(utc(2024, 3, 5, 12, 0, 7)):
        for sidx in range(sessions):
            c = env.client()                      # fresh cookie jar = fresh session
            fc = rng.choice([None, 0, 1, 2, 3])
            single = rng.random() < 0.6
            model_reqs, got, inps = [], [], []
            kinds = ['video'] if single else rng.sample(['video', 'audio', 'text'], rng.randint(1, 3))
            errs = {}
            for k in kinds:
                n_ent = 1 if single else rng.randint(1, 2)
                errs[k] = [(rng.choice([404, 410, 500, 503, 504]), rng.randint(2, 5)) for _ in range(n_ent)]
            use_manifest = (not single) and rng.random() < 0.4
            merr = [(rng.choice([404, 500, 503]), rng.randint(0, 3))] if use_manifest else []
            fired = passed = False
            segs_seen = []
            session_fc = fc
            varying = rng.random() < 0.35       # the failure count may change from one request of the session to the next
            constant_fc = True
            for _ in range(rng.randint(6, 14 if ctx.quick() else 40)):
                fc = session_fc
                if varying and rng.random() < 0.4:
                    fc = rng.choice([None, None, 0, 1, 2, 3])
                    constant_fc = constant_fc and fc == session_fc
                if use_manifest and rng.random() < 0.3:
                    upd = rng.choice([None, 0, 1, 2, 3])
                    q = ['merr=' + ','.join('%d=%d' % e for e in merr)]
                    if fc is not None:
                        q.append('failures=%d' % fc)
                    if upd is not None:
                        q.append('update=%d' % upd)
                    url = '/dash/live/bbb/hand_made.mpd?' + '&'.join(q)
                    st, site, r = watch.get(c, url)
                    model_reqs.append([1, [] if fc is None else [fc], [[cd, 0, p] for cd, p in merr], [] if upd is None else [upd], 0, 0])
                else:
                    k = rng.choice(kinds)
                    name, ext, opt = TRACK[k]
                    seg = rng.choice([e[1] for e in errs[k]] * 3 + [1, 6])
                    q = ['%s=%s' % (opt, ','.join('%d=%d' % e for e in errs[k]))]
                    if fc is not None:
                        q.append('failures=%d' % fc)
                    url = '/dash/vod/bbb/%s/%d.%s?%s' % (name, seg, ext, '&'.join(q))
                    st, site, r = watch.get(c, url)
                    model_reqs.append([0, USAGE[k], [] if fc is None else [fc], [list(e) for e in errs[k]], seg])
                    if single:
                        segs_seen.append(seg)
                ctx.count('http:inject')
                inps.append(url)
                if st in ('HANG', 'RAISE') or (isinstance(st, int) and st >= 500 and site is not None):
                    ctx.violation('request %d of the session, %s, answers %s (%s) - not a synthetic error' % (len(inps), url, st, site),
                                  {'session': inps}, key=None)
                    got.append(-1)
                    continue
                body = r.get_data(as_text=True) if st != 200 else ''
                synthetic = body.startswith('Synthetic')
                got.append(st if synthetic else None)
                if not synthetic and st != 200:
                    ctx.dist('inject:plain-%d' % st)
                fired = fired or synthetic
                passed = passed or st == 200
            fc = session_fc
            if single and constant_fc:
                code, pos = errs['video'][0]
                want = closed_form(code, pos, fc, segs_seen)
                if got != want:
                    i = next(i for i, (a, b) in enumerate(zip(got, want)) if a != b)
                    ctx.violation('verr=%d=%d failures=%s: request %d of the session (segment %d) was answered %s, the property asks %s; '
                                  'session statuses %s' % (code, pos, fc, i + 1, segs_seen[i], got[i], want[i], got), {'session': inps})
            if fired and passed:
                ctx.nontriv(('inject', sidx, tuple(inps)))
            reqs.append([0, model_reqs])
            meta.append(({'session': inps}, got))
        # scripted sessions: the failure count appears, disappears or changes while one client keeps asking for the addressed segment
        for code in (503, 500):
            for script in ([None, None, None, 2, 2, 2, 2], [1, 1, None, None, 1, 1, 1], [3, 0, 0, 3, 3, 3, 3, 3], [None, 0, None, 1, 1]):
                c = env.client()
                model_reqs, got, inps = [], [], []
                for fcv in script:
                    q = ['verr=%d=5' % code] + (['failures=%d' % fcv] if fcv is not None else [])
                    url = '/dash/vod/bbb/bbb_v7/5.m4v?' + '&'.join(q)
                    st, site, r = watch.get(c, url)
                    ctx.count('http:inject')
                    inps.append(url)
                    model_reqs.append([0, USAGE['video'], [] if fcv is None else [fcv], [[code, 5]], 5])
                    body = r.get_data(as_text=True) if (r is not None and st != 200) else ''
                    got.append(st if body.startswith('Synthetic') else None)
                reqs.append([0, model_reqs])
                meta.append(({'session': inps}, got))
                ctx.nontriv(('inject-script', code, tuple(script)))
    res = common.run_model_parallel(16, reqs)
    ok = True
    for (inp, got), m in zip(meta, res):
        ctx.count('corr:inject-session')
        want = [(x[0] if x else None) for x in m]
        if want != got:
            ok = False
            ctx.disagree('inject-session', inp, want, got)
    ctx.oblige('correspondence:HTTP(error injection sessions)-vs-ErrModel', ok)


def time_position_suite(ctx, env, watch):
    """a wall-clock position in verr/aerr is turned by the manifest into the number of the segment that contains it
    (counted in the numbering of THAT track: audio and video segment durations differ), and exactly that segment fails"""
    from ..appenv import Clock, utc
    from .. import boxwalk
    import re
    rng = ctx.rng
    c0 = env.client()
    reqs, meta = [], []
    tracks = [('verr', 'bbb_v7', 'm4v'), ('aerr', 'bbb_a1', 'm4a')]
    for trial in range(8 if ctx.quick() else 80):
        opt, name, ext = tracks[trial % len(tracks)]
        with env.app.app_context():
            ts = env.models.MediaFile.get(name=name).representation.timescale
        now = utc(2024, 3, 5, rng.choice([0, 1, 3, 12, 12, 23]), rng.randint(1, 59), rng.randint(0, 59))
        back = rng.randint(8, 50)
        tm = now - datetime.timedelta(seconds=back)
        pos = tm.strftime('%H:%M:%SZ')
        c = env.client()
        with Clock(now):
            url = '/dash/live/bbb/hand_made.mpd?start=today&depth=60&%s=503=%s' % (opt, tm.strftime('%Y-%m-%dT%H:%M:%SZ'))
            st, site, r = watch.get(c, url)
            ctx.count('http:inject-time')
            if st != 200:
                if st == 'HANG' or (isinstance(st, int) and st >= 500):
                    ctx.violation('%s answers %s (%s)' % (url, st, site), {'url': url, 'now': now.isoformat()})
                continue
            text = r.get_data(as_text=True)
            m = re.search(opt + r'=503(?:%3D|=)(\d+)(?![\d:-])', text)
            if not m:
                ctx.violation('%s: the manifest does not forward the %s position to the media URLs' % (url, opt), {'url': url, 'now': now.isoformat()})
                continue
            seg = int(m.group(1))
            # which segment contains tm?  ask the served segments themselves
            ast = now.replace(hour=0, minute=0, second=0, microsecond=0)
            delta = int((tm - ast).total_seconds())
            for k in (seg - 1, seg, seg + 1):
                u2 = '/dash/live/bbb/%s/%d.%s?start=today&depth=60&%s=503=%d' % (name, k, ext, opt, seg)
                s2, site2, r2 = watch.get(c, u2)
                u3 = '/dash/live/bbb/%s/%d.%s?start=today&depth=60' % (name, k, ext)
                s3, site3, r3 = watch.get(c0, u3)
                if s3 == 200:
                    summ = boxwalk.segment_summary(r3.data)
                    lo, hi = summ['tfdt'], summ['tfdt'] + summ['duration']
                    contains = lo <= delta * ts < hi
                    if contains != (s2 == 503):
                        ctx.violation('%s=503=%s at %s: segment %d of %s (%d..%d ticks) %s the instant %d s after availabilityStartTime but is answered %s'
                                      % (opt, pos, now.isoformat(), k, name, lo, hi, 'contains' if contains else 'does not contain', delta, s2),
                                      {'url': url, 'now': now.isoformat()}, key='time-position-segment:' + opt)
            ctx.nontriv(('time', opt, now.isoformat(), back))
            ctx.dist('time-position:' + opt)
            with env.app.app_context():
                rep = env.models.MediaFile.get(name=name).representation
                reqs.append([1, rep.start_number, delta, rep.timescale, rep.segment_duration])
                meta.append(({'url': url, 'now': now.isoformat(), 'track': name}, seg))
    res = common.run_model_parallel(16, reqs)
    ok = True
    for (inp, got), m in zip(meta, res):
        ctx.count('corr:time-to-segment')
        if m != got:
            ok = False
            ctx.disagree('time_to_segment', inp, m, got)
    ctx.oblige('correspondence:calculate_injected_error_segments-vs-ErrModel.time_to_segment', ok)


# ------------------------------------------------------------------ option readers
KIND_CODE = {'KBool': 0, 'KIntOrNone': 1, 'KIntDefault': 2, 'KStrOrNone': 3, 'KStr': 4, 'KList': 5}


def value_out(kind, v):
    if kind == 'KBool':
        return [0, 1 if v else 0]
    if kind == 'KIntOrNone':
        return [1, [] if v is None else [v]]
    if kind == 'KIntDefault':
        return [2, v]
    if kind == 'KStrOrNone':
        return [3, [] if v is None else [[ord(ch) for ch in v]]]
    if kind == 'KStr':
        return [4, [ord(ch) for ch in v]]
    return [5, [[ord(ch) for ch in x] for x in v]]


def options_suite(ctx):
    rows = ctx._options_rows
    rng = ctx.rng
    alphabet = '0123456789+-_ \t\n,=.eExXaAnNoO%'
    texts = [h for h in HOSTILE if all(ord(ch) < 128 for ch in h)]
    for _ in range(60 if ctx.quick() else 1500):
        texts.append(''.join(rng.choice(alphabet) for _ in range(rng.randint(1, 6))))
    texts += [' 12', '12 ', '\t-7\n', '+0', '-_1', '1__2', '_1', '1_', '1_2_3', '- 1', '+-1', '0_0', '00012', '\x1f9\x1c', 'NONE', 'None']
    reqs, meta = [], []
    for row in rows:
        opt = row['opt']
        kind = row['kind']
        default = 0
        if kind.startswith('KIntDefault'):
            default = int(kind[kind.index('(') + 1:kind.index(')')])
            kind = 'KIntDefault'
        for t in texts:
            ctx.count('impl:from_string')
            inp = {'option': row['name'], 'text': t}
            try:
                v = opt.from_string(t)
                out = ('ok', v)
            except ValueError:
                out = ('E400', None)
            except Exception as e:  # noqa
                out = ('CRASH', type(e).__name__)
                ctx.violation('option %s (%s): from_string(%r) raises %s, not ValueError: the handlers map only ValueError to 400'
                              % (row['name'], row['cgi'], t, type(e).__name__), inp, key='from_string:%s:%s' % (kind, type(e).__name__))
            if kind in KIND_CODE and out[0] != 'CRASH':
                reqs.append([2, [KIND_CODE[kind], default], [ord(ch) for ch in t]])
                meta.append((inp, [] if out[0] == 'E400' else [value_out(kind, out[1])]))
    res = common.run_model_parallel(16, reqs)
    ok = True
    for (inp, want), m in zip(meta, res):
        ctx.count('corr:from_string')
        if m != want:
            ok = False
            ctx.disagree('from_string', inp, m, want)
        elif want == []:
            ctx.nontriv(('reject', inp['option'], inp['text']))
    ctx.oblige('correspondence:DashOption.from_string-vs-OptErrModel.parse_any', ok)


# ------------------------------------------------------------------ HTTP surface
def get_routes(env):
    """GET routes of the URL map with their parameters filled from the fixtures"""
    fill = {'mode': ['vod', 'live'], 'stream': ['bbb'], 'manifest': ['hand_made.mpd', 'manifest_e.mpd', 'manifest_vod_aiv.mpd'],
            'filename': ['bbb_v7', 'bbb_v7_enc', 'bbb_a1', 'bbb_t1'], 'segment_num': ['init', '3', '0', '99999'], 'ext': ['m4v', 'mp4', 'm4a'],
            'segment_time': ['360360', '0', '7'], 'mps_name': ['mps1'], 'ppk': [None], 'method': ['xsd', 'iso', 'http-ntp', 'bogus'],
            'publish': ['1709640000'], 'spk': [None], 'mfid': [None], 'kpk': [None], 'mps_pk': [None], 'upk': ['1'],
            'format': ['json', 'html'], 'name': ['bbb'], 'directory': ['bbb'], 'prefix': ['none'], 'static_version': ['x'],
            'path': ['css/main.css'], 'stream_pk': [None], 'mspk': [None], 'ppk_or_pid': ['p1'], 'pid': ['p1'], 'blob': ['x'], 'segnum': ['1']}
    with env.app.app_context():
        spk = env.models.Stream.get(directory='bbb').pk
        mfid = env.models.MediaFile.get(name='bbb_v7').pk
        kpk = list(env.models.Key.all())[0].pk
        mps = env.models.MultiPeriodStream.get(name='mps1')
        ppk = mps.periods[0].pk
        fill.update(ppk=[str(ppk)], spk=[str(spk)], mfid=[str(mfid)], kpk=[str(kpk)], mps_pk=[str(mps.pk)], stream_pk=[str(spk)], mspk=[str(mps.pk)])
    out = []
    for rule in env.app.url_map.iter_rules():
        if 'GET' not in rule.methods:
            continue
        combos = [{}]
        ok = True
        for arg in sorted(rule.arguments):
            vals = fill.get(arg)
            if not vals:
                ok = False
                break
            combos = [dict(cb, **{arg: v}) for cb in combos for v in vals]
        if not ok:
            out.append((rule.rule, None))
            continue
        for cb in combos:
            try:
                out.append((rule.rule, rule.build(cb, append_unknown=False)[1]))
            except Exception:  # noqa
                out.append((rule.rule, None))
    return out


def http_fuzz(ctx, env, watch):
    from ..appenv import Clock, utc
    rng = ctx.rng
    names = [n for n, _ in option_names()]
    routes = get_routes(env)
    unfilled = sorted({r for r, u in routes if u is None})
    ctx.dist('routes:GET=%d filled=%d unfilled=%d' % (len({r for r, _ in routes}), len({r for r, u in routes if u}), len(unfilled)))
    urls = sorted({u for _, u in routes if u})
    clients = {'anon': env.client(), 'admin': env.client('admin')}
    per_url = 6 if ctx.quick() else 120
    seen_sites = collections.OrderedDict()
    with Clock(utc(2024, 3, 5, 12, 0, 7)):
        for u in urls:
            media = u.startswith('/dash/') or u.startswith('/mps/') or u.startswith('/time/')
            for k in range(per_url if media else (8 if ctx.quick() else 60)):
                role = 'anon' if media else rng.choice(['anon', 'admin'])
                if k == 0:
                    q = ''
                else:
                    parts = []
                    for _ in range(rng.choice([1, 1, 1, 2, 3])):
                        parts.append('%s=%s' % (rng.choice(names), urllib.parse.quote(rng.choice(HOSTILE))))
                    q = '?' + '&'.join(parts)
                url = u + q
                st, site, r = watch.get(clients[role], url)
                ctx.count('http:fuzz')
                ctx.dist('fuzz-status:%s' % (st if not isinstance(st, int) else '%dxx' % (st // 100)))
                if st == 'HANG' or st == 'RAISE' or (isinstance(st, int) and st >= 500):
                    body = '' if r is None else r.get_data(as_text=True)[:40]
                    if isinstance(st, int) and body.startswith('Synthetic'):
                        continue
                    key = 'http:%s' % (site or st)
                    if st == 'HANG' or (site or '').startswith('TimeoutError@'):
                        # where the clock caught the request says nothing: name the route and, when it is the cause, the parameter
                        import re as _re
                        m_ = _re.search(r'[?&]depth=(\d+)', url)
                        big_depth = m_ is not None and int(m_.group(1)) >= 3600
                        mps_live = url.startswith('/mps/live/') or url.startswith('/play/mps/live/')
                        key = 'http:HANG:mps-live-depth' if (mps_live and big_depth) else 'http:HANG:%s' % url.split('?')[0]
                    seen_sites.setdefault(key, []).append((url, role, st))
                elif isinstance(st, int) and st < 500 and q:
                    ctx.nontriv(url)
    for key, hits in sorted(seen_sites.items()):
        url, role, st = hits[0]
        ctx.violation('GET %s (%s) answers %s: %s [%d requests reach this site, e.g. %s]'
                      % (url, role, st, key[5:], len(hits), ' '.join(h[0] for h in hits[1:3])), {'url': url, 'role': role, 'all': [h[0] for h in hits[:20]]}, key=key)


def valid_values():
    """option name -> values a client would legitimately send (choices listed by the option itself plus typical ones)"""
    typical = {'aerr': ['503=4', '404=2,503=3', '503=12:00:00Z'], 'verr': ['503=4', '404=2', '503=11:59:50Z'], 'terr': ['404=2'], 'merr': ['503=1', '404=0', '503=12:00:05Z', '503=2023-01-01'],
               'failures': ['0', '2'], 'update': ['1'], 'vcorrupt': ['3', '2,4'], 'frames': ['2'], 'acodec': ['mp4a', 'ec-3', 'ac-3'],
               'tcodec': ['wvtt', 'stpp'], 'tlang': ['eng'], 'events': ['ping', 'scte35', 'ping,scte35'], 'drm': ['all', 'playready', 'clearkey-moov'],
               'start': ['today', 'epoch', '2024-03-05T11:00:00Z'], 'depth': ['20', '0'], 'mup': ['4', '-1'], 'leeway': ['0', '30'],
               'drift': ['5', '-5'], 'time': ['direct', 'xsd', 'iso', 'ntp', 'head', 'http-ntp'], 'timeline': ['1'], 'patch': ['1'],
               'base': ['1'], 'abr': ['0'], 'bugs': ['saio'], 'ping__interval': ['200', '1000'], 'ping__count': ['3'],
               'scte35__interval': ['500'], 'playready__version': ['1.0', '4.0'], 'playready__piff': ['0'], 'main_audio': ['bbb_a2'],
               'ad_audio': ['bbb_a2'], 'main_text': ['bbb_t1'], 'ntp_servers': ['europe-ntp', 'google'], 'time_value': ['2024-03-05T12:00:00Z']}
    out = {}
    for n, o in option_names():
        vals = list(typical.get(n, []))
        for ch in (o.cgi_choices or ()):
            v = ch[1] if isinstance(ch, tuple) else ch
            if v not in (None, '') and str(v) not in vals:
                vals.append(str(v))
        if vals:
            out[n] = vals[:6]
    return out


def valid_combinations(ctx, env, watch):
    """pairs of LEGITIMATE option values on manifests and segments of full and video-only / audio-only streams"""
    from ..appenv import Clock, utc
    rng = ctx.rng
    vals = valid_values()
    names = sorted(vals)
    c = env.client()
    sites = collections.OrderedDict()
    targets = ['/dash/%s/bbb/hand_made.mpd', '/dash/%s/bbb/manifest_e.mpd', '/dash/%s/clearonly/hand_made.mpd', '/dash/%s/audioonly/hand_made.mpd',
               '/mps/%s/mps1/hand_made.mpd', '/dash/%s/bbb/bbb_v7/3.m4v', '/dash/%s/bbb/bbb_a1/3.m4a', '/dash/%s/bbb/bbb_v7_enc/3.m4v',
               '/dash/%s/clearonly/co_v7/3.m4v']
    pairs = [(a, b) for i, a in enumerate(names) for b in names[i:]]
    if ctx.quick():
        must = [p for p in pairs if p[0] in ('acodec', 'aerr', 'drm') or p[1] in ('aerr', 'verr', 'terr', 'merr')]
        pairs = rng.sample(must, min(len(must), 60)) + rng.sample(pairs, 60)
    with Clock(utc(2024, 3, 5, 12, 0, 7)):
        for a, b in pairs:
            for _ in range(1 if ctx.quick() else 2):
                t = rng.choice(targets) % rng.choice(['vod', 'live'])
                q = '%s=%s' % (a, urllib.parse.quote(rng.choice(vals[a])))
                if b != a:
                    q += '&%s=%s' % (b, urllib.parse.quote(rng.choice(vals[b])))
                url = t + '?' + q
                st, site, r = watch.get(c, url)
                ctx.count('http:valid-pairs')
                if st == 'HANG' or (isinstance(st, int) and st >= 500):
                    if r is not None and r.get_data(as_text=True)[:9] == 'Synthetic':
                        continue
                    sites.setdefault('http:%s' % site, []).append((url, st))
                elif st == 200:
                    ctx.nontriv(url)
        # error positions of every lexical class from_isodatetime accepts (number, time of day, date-time, date, duration) and a few it
        # does not, on manifests and player pages of single- and multi-period streams, live and vod; every time source on the pages
        positions = ['4', '12:00:00Z', '11:59:50Z', '2024-03-05T11:59:50Z', '2024-03-05', 'PT0S', 'PT30S', 'P1D', '-PT5S', '24:00:00Z', '12:00',
                     '2024-03-05T11:59:50+01:00', 'T12', '99:99:99Z']
        pages = ['/dash/%s/bbb/hand_made.mpd', '/mps/%s/mps1/hand_made.mpd', '/play/%s/bbb/hand_made.mpd/index.html',
                 '/play/mps/%s/mps1/hand_made.mpd/index.html', '/dash/%s/bbb/manifest_e.mpd']
        for page in pages:
            for mode_ in ('live', 'vod'):
                t = page % mode_
                urls = ['%s?%s=503=%s' % (t, o_, urllib.parse.quote(p_)) for o_ in ('verr', 'aerr', 'terr', 'merr') for p_ in positions]
                urls += ['%s?vcorrupt=%s' % (t, urllib.parse.quote(p_)) for p_ in positions]
                if '/play/' in page:
                    urls += ['%s?time=%s' % (t, m_) for m_ in ('direct', 'head', 'http-ntp', 'iso', 'ntp', 'sntp', 'xsd', 'bogus')]
                for url in urls:
                    st, site, r = watch.get(c, url)
                    ctx.count('http:error-position-classes')
                    if st == 'HANG' or (isinstance(st, int) and st >= 500):
                        if r is not None and r.get_data(as_text=True)[:9] == 'Synthetic':
                            continue
                        sites.setdefault('http:%s' % (site or st), []).append((url, st))
                    elif st == 200:
                        ctx.nontriv(url)
        # event schedules at their boundaries: zero / negative interval, duration, start, timescale, count; unknown version
        for ev in ('ping', 'scte35'):
            # ... and at the upper end: values beyond the width of the fields they are written into (emsg: 32 bits;
            # splice_insert: 8-bit avail counts, 16-bit program id, 33-bit durations), with a schedule dense enough
            # (interval=100) that the requested segment carries an event
            for fld, bad in (('interval', ['0', '-5', '99999999999']), ('duration', ['-1', '0', '99999999999', '18446744073709551616']),
                             ('timescale', ['0', '-1', '10000000', '99999999999']), ('start', ['-1', '99999999999999']),
                             ('count', ['-1', '510', '100000']), ('version', ['7', '-1']), ('inband', ['0']),
                             ('program_id', ['70000', '-1', '4294967296']), ('value', ['x' * 300])):
                for b in bad:
                    for t in ('/dash/vod/bbb/bbb_v7/1.m4v', '/dash/vod/bbb/bbb_v7/3.m4v', '/dash/live/bbb/hand_made.mpd', '/dash/vod/bbb/manifest_e.mpd'):
                        for extra in ('', '&%s__inband=0&%s__count=2' % (ev, ev), '&%s__interval=100' % ev if fld != 'interval' else '&%s__count=3' % ev):
                            url = '%s?events=%s&%s__%s=%s%s' % (t, ev, ev, fld, b, extra)
                            st, site, r = watch.get(c, url)
                            ctx.count('http:event-boundaries')
                            if st == 'HANG' or (isinstance(st, int) and st >= 500):
                                sites.setdefault('http:%s' % (site or st), []).append((url, st))
        # a stream that has not started yet (availabilityStartTime after now), every template, with and without a timeline
        for t in ('hand_made.mpd', 'manifest_a.mpd', 'manifest_b.mpd', 'manifest_e.mpd', 'manifest_ef.mpd', 'manifest_h.mpd', 'manifest_i.mpd',
                  'manifest_n.mpd'):
            for base in ('/dash/live/bbb/', '/mps/live/mps1/'):
                for q in ('start=2030-01-01T00:00:00Z', 'start=2030-01-01T00:00:00Z&timeline=1', 'start=2024-03-05T12:00:08Z&timeline=1',
                          'start=2024-03-05T12:00:07Z', 'start=now&depth=0'):
                    url = base + t + '?' + q
                    st, site, r = watch.get(c, url)
                    ctx.count('http:not-started-yet')
                    if st == 'HANG' or (isinstance(st, int) and st >= 500):
                        sites.setdefault('http:%s' % (site or st), []).append((url, st))
        # segment numbers and times at both ends of what exists (and far outside), every track kind, vod and live, single- and
        # multi-period routes: 200 or 404, never an exception
        with env.app.app_context():
            tracks = []
            for nm, ext in (('bbb_v7', 'm4v'), ('bbb_a1', 'm4a'), ('bbb_t1', 'mp4'), ('bbb_v7_enc', 'm4v')):
                mf = env.models.MediaFile.get(name=nm)
                if mf is not None and mf.representation is not None:
                    rp = mf.representation
                    tracks.append((nm, ext, rp.start_number, rp.num_media_segments, rp.segment_duration))
        # Range headers on the routes that honour them (C13 decides the bytes; here: below 500 whatever the header says)
        ranges = ['bytes=10-5', 'bytes=5-5', 'bytes=-0', 'bytes=-1', 'bytes=0-', 'bytes=99999999-', 'bytes=99999999-5', 'bytes=5-99999999999999999999',
                  'bytes=-99999999999999999999', 'bytes=a-b', 'bytes=', 'bytes=1-2,4-5', 'items=0-5', 'bytes=--5', 'bytes=5--', 'bytes=0x10-0x20',
                  'bytes= 5 - 9 ', '', 'bytes=\u0661-\u0665']
        for path in ('/dash/odvod/bbb/bbb_v7.m4v', '/dash/odvod/bbb/bbb_a1.m4a', '/dash/vod/bbb/bbb_v7/3.m4v', '/dash/live/bbb/bbb_a1/init.m4a'):
            for rg in ranges:
                try:
                    st, site, r = watch.get(c, path, headers={'Range': rg})
                except Exception as e:  # noqa   (a header the test client itself refuses to send)
                    ctx.dist('range-header-not-sent:%s' % type(e).__name__)
                    continue
                ctx.count('http:range-boundaries')
                if st == 'HANG' or (isinstance(st, int) and st >= 500):
                    sites.setdefault('http:%s' % (site or st), []).append(('%s [Range: %s]' % (path, rg), st))
        for nm, ext, sn, n, sd in tracks:
            nums = [-1, 0, sn - 1, sn, sn + 1, sn + n - 2, sn + n - 1, sn + n, sn + n + 1, sn + 2 * n, 2**31 - 1, 2**31, 2**63, 10**30]
            times = [0, 1, sd - 1, sd, sd * (n - 1), sd * n - 1, sd * n, sd * n + 1, sd * (n + 1), 2**32, 2**63, 10**30]
            for mode in ('vod', 'live'):
                for q in ('', '?start=epoch', '?start=today&depth=20'):
                    urls = ['/dash/%s/bbb/%s/%d.%s%s' % (mode, nm, k, ext, q) for k in nums]
                    urls += ['/dash/%s/bbb/%s/time/%d.%s%s' % (mode, nm, t_, ext, q) for t_ in times]
                    if nm in ('bbb_v7', 'bbb_a1') and q != '?start=epoch':
                        with env.app.app_context():
                            mps = env.models.MultiPeriodStream.get(name='mps1')
                            ppks = [p_.pk for p_ in mps.periods] if mps is not None else []
                        for ppk in ppks[:2]:
                            urls += ['/mps/%s/mps1/%d/%s/%d.%s%s' % (mode, ppk, nm, k, ext, q) for k in nums]
                            urls += ['/mps/%s/mps1/%d/%s/time/%d.%s%s' % (mode, ppk, nm, t_, ext, q) for t_ in times]
                    for url in urls:
                        st, site, r = watch.get(c, url)
                        ctx.count('http:segment-boundaries')
                        if st == 'HANG' or (isinstance(st, int) and st >= 500):
                            sites.setdefault('http:%s' % (site or st), []).append((url, st))
                        elif st == 200:
                            ctx.nontriv(url)
    for key, hits in sorted(sites.items()):
        ctx.violation('GET %s answers %s: %s [%d requests with legitimate option values, e.g. %s]'
                      % (hits[0][0], hits[0][1], key[5:], len(hits), ' '.join(h[0] for h in hits[1:3])),
                      {'url': hits[0][0], 'all': [h[0] for h in hits[:20]]}, key=key)


def missing_pieces(ctx, env, watch):
    """streams lacking encrypted media / audio / text / a timing reference"""
    from ..appenv import Clock, utc
    fx = '/repo/tests/fixtures/bbb/'
    env.add_custom_stream('clearonly', {'co_v7': fx + 'bbb_v7.mp4'}, title='one clear video file')
    env.add_custom_stream('audioonly', {'ao_a1': fx + 'bbb_a1.mp4', 'ao_a1_enc': fx + 'bbb_a1_enc.mp4'}, title='audio only')
    env.add_custom_stream('noref', {'nr_v7': fx + 'bbb_v7.mp4', 'nr_a1': fx + 'bbb_a1.mp4'}, title='no timing reference', timing=False)
    with env.app.app_context():
        s = env.models.Stream(title='no files at all', directory='empty')
        env.models.db.session.add(s)
        env.models.db.session.commit()
    c = env.client()
    sites = collections.OrderedDict()
    files = {'clearonly': 'co_v7/2.m4v', 'audioonly': 'ao_a1_enc/2.m4a', 'noref': 'nr_v7/2.m4v', 'empty': 'bbb_v7/2.m4v'}
    with Clock(utc(2024, 3, 5, 12, 0, 7)):
        for name in ('clearonly', 'audioonly', 'noref', 'empty'):
            for mode in ('vod', 'live'):
                urls = ['/dash/%s/%s/%s' % (mode, name, files[name]), '/dash/%s/%s/%s?drm=all' % (mode, name, files[name]),
                        '/dash/%s/%s/%s' % (mode, name, files[name].replace('/2.', '/init.'))]
                for mft in ('hand_made.mpd', 'manifest_e.mpd', 'manifest_vod_aiv.mpd', 'manifest_a.mpd', 'manifest_n.mpd'):
                    for q in ('', '?drm=all', '?drm=playready', '?acodec=ec-3', '?events=ping', '?time=direct', '?tcodec=wvtt', '?patch=1',
                              '?timeline=1', '?abr=0', '?main_audio=ao_a1&main_text=bbb_t1',
                              '?aerr=503=4', '?verr=503=4', '?terr=404=2', '?merr=503=1&update=1', '?vcorrupt=3', '?acodec=ec-3&aerr=503=4'):
                        urls.append('/dash/%s/%s/%s%s' % (mode, name, mft, q))
                urls.append('/play/%s/%s/hand_made/index.html' % (mode, name))
                with env.app.app_context():
                    spk = env.models.Stream.get(directory=name).pk
                urls += ['/stream/%d' % spk, '/stream/%d?ajax=1' % spk, '/stream/%d/defaults' % spk, '/streams', '/streams?ajax=1', '/']
                for url in urls:
                    st, site, r = watch.get(c, url)
                    ctx.count('http:missing-pieces')
                    ctx.dist('missing-pieces:%s' % (st if not isinstance(st, int) else '%dxx' % (st // 100)))
                    if st == 'HANG' or (isinstance(st, int) and st >= 500):
                        if r is not None and r.get_data(as_text=True)[:9] == 'Synthetic':
                            continue
                        sites.setdefault(('http:%s' % site, name), []).append((url, st))
    for (key, name), hits in sorted(sites.items()):
        ctx.violation('GET %s (stream "%s") answers %s: %s [%d requests, e.g. %s]'
                      % (hits[0][0], name, hits[0][1], key[5:], len(hits), ' '.join(h[0] for h in hits[1:3])),
                      {'url': hits[0][0], 'all': [h[0] for h in hits[:20]]}, key=key)


# ------------------------------------------------------------------ MP4 input
REPORTED = ('ValueError', 'struct.error', 'error', 'ReadError', 'EOFError', 'OSError', 'IOError', 'AssertionError', 'OverflowError', 'UnicodeDecodeError',
            'IndexError', 'KeyError')


def apply_edits(data, edits):
    """edits: ('truncate', n) or ('patch', [(pos, hexbytes), ...]) - the replayable description of a corruption"""
    if edits[0] == 'truncate':
        return bytes(data[:edits[1]])
    b = bytearray(data)
    for pos, hx in edits[1]:
        nb = bytes.fromhex(hx)
        b[pos:pos + len(nb)] = nb
    return bytes(b)


def corrupt(rng, data):
    """-> (kind, edits); apply_edits(data, edits) is the corrupted input"""
    from .. import boxwalk
    kind = rng.choice(['truncate', 'flip', 'size', 'size-big', 'count'])
    if kind == 'truncate':
        return kind, ('truncate', rng.randrange(1, len(data)))
    if kind == 'flip':
        ed = []
        for _ in range(rng.randint(1, 4)):
            i = rng.randrange(min(len(data), 2048))
            ed.append((i, '%02x' % (data[i] ^ (1 << rng.randrange(8)))))
        return kind, ('patch', ed)
    boxes = boxwalk.parse(bytes(data))
    flat = []
    stack = list(boxes)
    while stack:
        x = stack.pop()
        flat.append(x)
        stack.extend(x.children)
    flat.sort(key=lambda x: x.start)
    x = rng.choice(flat)
    if kind == 'size':
        v = rng.choice([0, 1, 7, 8, max(0, x.size - 1), x.size + 1, x.size + 8])
        return kind, ('patch', [(x.start, v.to_bytes(4, 'big').hex())])
    if kind == 'size-big':
        return kind, ('patch', [(x.start, rng.choice([0x7fffffff, 0xffffffff, 0x80000000]).to_bytes(4, 'big').hex())])
    # a count field: the first 4 bytes after a full-box header of a leaf box
    leaves = [y for y in flat if not y.children and y.size >= 16] or [x]
    y = rng.choice(leaves)
    return kind, ('patch', [(y.start + 12, rng.choice([0xffffffff, 0x7fffffff, 0x10000000]).to_bytes(4, 'big').hex())])


def mp4_sources():
    from .. import boxwalk
    fix = '/repo/tests/fixtures/bbb'
    srcs = []
    for name in ('bbb_v7.mp4', 'bbb_v7_enc.mp4', 'bbb_a1.mp4', 'bbb_a1_enc.mp4', 'bbb_t1.mp4'):
        data = open(os.path.join(fix, name), 'rb').read()
        boxes = boxwalk.parse(data)
        moofs = [i for i, b in enumerate(boxes) if b.type == b'moof']
        init = b''.join(b.raw for b in boxes[:moofs[0]])
        seg = boxes[moofs[0]].raw + boxes[moofs[0] + 1].raw
        srcs.append((name + ':init', init, name.endswith('_enc.mp4')))
        srcs.append((name + ':seg', seg, name.endswith('_enc.mp4')))
    return srcs


def mp4_fuzz(ctx, watch):
    from dashlive.mpeg import mp4
    from dashlive.utils.buffered_reader import BufferedReader
    from .. import boxwalk
    rng = ctx.rng
    srcs = mp4_sources()
    n = 120 if ctx.quick() else 2500
    limit = 6                    # seconds; intact fixture boxes parse in milliseconds
    for i in range(n):
        name, data, enc = rng.choice(srcs)
        kind, edits = corrupt(rng, data)
        bad = apply_edits(data, edits)
        ctx.count('impl:mp4-corrupt')
        inp = {'source': name, 'mutation': kind, 'edits': edits, 'length': len(bad)}
        for lazy in (False, True):
            signal.alarm(limit)
            try:
                opts = mp4.Options(lazy_load=lazy, mode='r', iv_size=8 if enc else None)
                atoms = mp4.Mp4Atom.load(BufferedReader(None, data=bad), options=opts, use_wrapper=True)
                for a in atoms.children:
                    a.toJSON()
                ctx.dist('mp4:%s:accepted' % kind)
            except TimeoutError:
                # the known class: some sample_count (trun / senc / saiz) far beyond the box, whichever mutation produced it
                cause = kind
                try:
                    for bx in boxwalk.parse(bad):
                        stack = [bx]
                        while stack:
                            y = stack.pop()
                            stack.extend(y.children)
                            if y.type in (b'trun', b'senc', b'saiz') and len(y.payload) >= 8:
                                pl = y.payload
                                cnt = int.from_bytes(pl[4:8], 'big') if y.type != b'saiz' else int.from_bytes(pl[5:9] if not pl[3] & 1 else pl[13:17], 'big')
                                if cnt > 100000:
                                    cause = 'count'
                except Exception:  # noqa
                    pass
                ctx.violation('Mp4Atom.load (%s) on %s after %s did not finish within %d s' % ('lazy' if lazy else 'eager', name, kind, limit),
                              inp, key='mp4:HANG:%s' % cause)
            except MemoryError:
                ctx.violation('Mp4Atom.load on %s after %s ran out of memory' % (name, kind), inp, key='mp4:MemoryError')
            except RecursionError:
                ctx.violation('Mp4Atom.load on %s after %s exhausted the stack' % (name, kind), inp, key='mp4:RecursionError')
            except Exception as e:  # noqa
                tn = type(e).__name__
                ctx.dist('mp4:%s:%s' % (kind, tn))
                if tn not in REPORTED:
                    tb = traceback.extract_tb(e.__traceback__)
                    own = [f for f in tb if '/dashlive/' in f.filename]
                    where = '%s:%s' % (own[-1].filename.split('/dashlive/')[-1], own[-1].name) if own else '?'
                    ctx.violation('Mp4Atom.load (%s) on %s after %s raised %s at %s: %s - not a reported parse error'
                                  % ('lazy' if lazy else 'eager', name, kind, tn, where, str(e)[:60]), inp, key='mp4:%s@%s' % (tn, where))
                else:
                    ctx.nontriv(('mp4', i, lazy))
            finally:
                signal.alarm(0)


def upload_fuzz(ctx, env, watch):
    """corrupted files through the upload, index, info and segment-list endpoints: 4xx or a reported error, never 5xx"""
    from .c15 import Actor
    rng = ctx.rng
    actor = Actor(env, 'media')
    c = actor.c
    srcs = dict((n, d) for n, d, _ in mp4_sources())
    a1 = open('/repo/tests/fixtures/bbb/bbb_a1.mp4', 'rb').read()
    with env.app.app_context():
        spk = env.models.Stream.get(directory='bbb').pk
    for i in range(8 if ctx.quick() else 120):
        if rng.random() < 0.5:
            data = a1
        else:
            data = srcs[rng.choice(['bbb_a1.mp4:init', 'bbb_v7.mp4:init'])] + srcs[rng.choice(['bbb_a1.mp4:seg', 'bbb_v7.mp4:seg'])]
        kind, edits = corrupt(rng, data)
        if kind == 'count':
            continue                         # the known sample_count hang (mp4:HANG:count) would stall the run
        bad = apply_edits(data, edits)
        tok = actor.harvest('/stream/%d' % spk).get('upload')
        if not tok:
            ctx.dist('upload:no-token')
            return
        fname = 'bad%d.mp4' % i
        inp = {'mutation': kind, 'edits': edits, 'length': len(bad)}
        st, site, r = watch.get(c, '/media/%d/blob' % spk, method='post', headers=actor.headers(),
                                data={'csrf_token': tok, 'ajax': '1', 'stream': str(spk), 'file': (io.BytesIO(bad), fname)},
                                content_type='multipart/form-data')
        ctx.count('http:upload-corrupt')
        ctx.dist('upload:%s:%s' % (kind, st))
        if st == 'HANG' or (isinstance(st, int) and st >= 500):
            ctx.violation('uploading a file corrupted by %s answers %s: %s' % (kind, st, site), inp, key='http:%s' % site)
            continue
        with env.app.app_context():
            mf = env.models.MediaFile.get(name=fname[:-4])
            mfid = mf.pk if mf else None
        if mfid is None:
            continue
        for what, url in (('index', '/media/index/%d?index=1' % mfid), ('info', '/stream/%d/%d' % (spk, mfid)),
                          ('segments', '/stream/%d/%d/segments' % (spk, mfid)), ('segment', '/stream/%d/%d/segment/1' % (spk, mfid)),
                          ('stream page', '/stream/%d' % spk), ('manifest', '/dash/vod/bbb/hand_made.mpd')):
            for ajax in (True, False):
                st, site, r = watch.get(c, url, headers=actor.headers(ajax=ajax))
                ctx.count('http:%s-corrupt' % what.replace(' ', '-'))
                ctx.dist('%s:%s:%s' % (what, kind, st))
                if st == 'HANG' or (isinstance(st, int) and st >= 500):
                    ctx.violation('%s of an uploaded file corrupted by %s (%s) answers %s: %s' % (what, kind, url, st, site), inp, key='http:%s' % site)
        # remove it again so that later manifests are not affected
        tok = actor.harvest('/stream/%d/%d' % (spk, mfid)).get('files') or actor.csrf.get('files')
        watch.get(c, '/stream/%d/%d/delete?csrf_token=%s' % (spk, mfid, tok or ''), method='delete', headers=actor.headers())
        with env.app.app_context():
            mf = env.models.MediaFile.get(pk=mfid)
            if mf is not None:
                env.models.db.session.delete(mf)
                env.models.db.session.commit()


def body_fuzz(ctx, workdir):
    """every state-changing route (POST / PUT / DELETE the router accepts), as an AUTHORISED administrator holding the right
    CSRF tokens, with bodies a client could send by mistake: fields missing, null, of the wrong type, very long, names and
    addresses another row already has, non-object JSON, empty bodies.  Below 500, always."""
    from ..appenv import AppEnv
    from . import c15
    import logging
    env = AppEnv(os.path.join(workdir, 'bodies'), streams=('bbb',), copy_media=True)
    logging.disable(logging.CRITICAL)
    env.add_mps('mps1', [dict(pid='p1', stream='bbb', start_s=0, duration_s=20), dict(pid='p2', stream='bbb', start_s=8, duration_s=16)])
    watch = Watch(env.app)
    rng = ctx.rng
    actor = c15.Actor(env, 'admin')
    with env.app.app_context():
        m = env.models
        stream = m.Stream.get(directory='bbb')
        mf = m.MediaFile.get(name='bbb_v7')
        keys = list(m.Key.all())
        ids = {'spk': stream.pk, 'stream': 'bbb', 'mfid': mf.pk, 'filename': 'bbb_v7', 'kpk': keys[0].pk if keys else 1,
               'mps_name': 'mps1', 'ppk': 1, 'segnum': 1, 'publish': 1700000000, 'username': 'user',
               'upk': m.User.get(username='user').pk, 'self_pk': actor.user_pk}
        mps = m.MultiPeriodStream.get(name='mps1')
        ids['mps_pk'] = mps.pk if mps else None
    rules = [r for r in env.app.url_map.iter_rules() if r.endpoint != 'static']
    odd = [None, 7, -1, 2**70, 1.5, True, [], ['a'], {}, {'a': 1}, '', ' ', 'x' * 5000, 'media', 'admin', 'bbb', 'mps1', '../../etc/passwd',
           'a"b<c>&', '\u0000', 'PT-5S', 'not-a-date', '0123456789012345678901234567890a']
    sites = collections.OrderedDict()
    plan = []
    for method in ('POST', 'PUT', 'DELETE'):
        for rule in rules:
            if method in (rule.methods or ()):
                plan.append((method, rule))
    per_rule = 10 if ctx.quick() else 120
    for method, rule in plan:
        url = c15.url_for_rule(rule, ids)
        templates = [b for k, b, sp in c15.payloads(rule.endpoint, ids, {}) if k == 'json'] or [{}]
        forms = [b for k, b, sp in c15.payloads(rule.endpoint, ids, {}) if k == 'form'] or [{}]
        for trial in range(per_rule):
            actor.refresh_tokens()
            toks = dict(actor.csrf)
            try:
                toks.update(actor.harvest(url))
            except Exception:  # noqa
                pass
            tok = rng.choice(list(toks.values())) if toks and rng.random() < 0.9 else None
            shape = rng.choice(['json', 'json', 'json', 'form', 'rawjson', 'empty'])
            kw = {'headers': actor.headers()}
            if shape == 'json':
                body = dict(rng.choice(templates))
                for _ in range(rng.choice([0, 1, 1, 2, 3])):
                    if body and rng.random() < 0.4:
                        body.pop(rng.choice(sorted(body)), None)
                    elif body:
                        body[rng.choice(sorted(body))] = rng.choice(odd)
                    else:
                        body[rng.choice(['name', 'title', 'username', 'email', 'pk', 'periods', 'options'])] = rng.choice(odd)
                if tok is not None:
                    body['csrf_token'] = tok
                kw['json'] = body
                shown = body
            elif shape == 'form':
                body = {k: v for k, v in dict(rng.choice(forms)).items()}
                for _ in range(rng.choice([0, 1, 2])):
                    if body:
                        body[rng.choice(sorted(body))] = str(rng.choice(odd))
                if tok is not None:
                    body['csrf_token'] = tok
                kw['data'] = body
                shown = body
            elif shape == 'rawjson':
                shown = rng.choice(['null', '[]', '7', '"text"', '{"a":', '[1,2', '{"csrf_token": null}', 'true'])
                kw['data'] = shown
                kw['content_type'] = 'application/json'
            else:
                shown = ''
            qs = ('?csrf_token=' + urllib.parse.quote(tok)) if (tok and method == 'DELETE') else ''
            st, site, r = watch.get(actor.c, url + qs, method=method.lower(), **kw)
            ctx.count('http:body-fuzz')
            ctx.dist('body-fuzz-status:%s' % (st if not isinstance(st, int) else '%dxx' % (st // 100)))
            if isinstance(st, int) and st >= 500 and site and 'async_to_sync' in site:
                # an async view (/media/inspect): Flask's async support (asgiref) is not installed in this sandbox; nothing of
                # dash-live ran
                ctx.dist('environment:async-view-unavailable')
                continue
            if st == 'HANG' or st == 'RAISE' or (isinstance(st, int) and st >= 500):
                key = 'body:%s %s:%s' % (method, rule.rule, site or st)
                sites.setdefault(key, []).append((method, url + qs, shape, shown, st))
            elif isinstance(st, int) and st < 500:
                ctx.nontriv((method, rule.rule, shape, str(shown)[:60]))
    for key, hits in sorted(sites.items()):
        method, url, shape, shown, st = hits[0]
        ctx.violation('%s %s (administrator, %s body %s) answers %s: %s [%d requests reach this site]'
                      % (method, url, shape, str(shown)[:200], st, key.split(':', 2)[-1], len(hits)),
                      {'method': method, 'url': url, 'shape': shape, 'body': shown if isinstance(shown, (dict, str)) else str(shown)}, key=key)
    env.close()


def run(ctx):
    import logging
    logging.disable(logging.CRITICAL)
    from .c07 import gen_options
    common.proof_step(ctx, gen=[gen_options])
    ctx.trusted += ['harness/shims used to run the real Flask app; clock patched from outside',
                    'the "no 5xx / terminates" half of C16 is a SEARCH over the HTTP surface and the parser, not a theorem: it can only '
                    'report what it reaches (DESIGN.md C16)']
    ctx.assumptions += ['one session = one cookie jar; the failure counter lives in the signed session cookie',
                        'ASCII option texts shorter than 4300 characters (Python refuses longer integer literals with ValueError)']
    from ..appenv import AppEnv
    options_suite(ctx)
    env = AppEnv(ctx.workdir, streams=('bbb',), copy_media=True)
    logging.disable(logging.CRITICAL)
    env.add_mps('mps1', [dict(pid='p1', stream='bbb', start_s=0, duration_s=20), dict(pid='p2', stream='bbb', start_s=8, duration_s=16)])
    watch = Watch(env.app)
    inject_suite(ctx, env, watch)
    time_position_suite(ctx, env, watch)
    http_fuzz(ctx, env, watch)
    missing_pieces(ctx, env, watch)
    valid_combinations(ctx, env, watch)
    mp4_fuzz(ctx, watch)
    upload_fuzz(ctx, env, watch)
    env.close()
    body_fuzz(ctx, ctx.workdir)


def replay(ctx, payload):
    for v in payload.get('violations', []):
        print('replay:', v['what'])
    return 1 if payload.get('violations') else 0
