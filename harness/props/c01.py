"""C01 - every segment a live manifest advertises is retrievable (timing half + HTTP).
Theorems: coq/Props/C01.v.  Correspondence: shared segment-core suites.  Oracle: every timeline
entry ended by now, and every $Number$ whose ISO/IEC 23009-1 5.3.9.5.3 window contains now, must be
served by LiveMedia.calculate_media_segment_index."""
from .. import common, segcore as sc

RULE = ('synthetic representations and clocks as for C02; per case: every timeline entry with t+d <= now and every $Number$ '
        'with (N-sn+1)*d <= now_ticks <= (N-sn+2)*d + depth*timescale is requested; HTTP: the same on the bbb fixtures, plus '
        'the init segment of every representation. Non-trivial: at least one advertised segment was requested and served; '
        'distinct by (representation, clock)')


def advertised_numbers(rep, tv):
    """5.3.9.5.3 from the manifest's own values: ast, tsbd, startNumber, duration, timescale"""
    ts, sd, sn = rep['ts'], sc.rep_seg_dur(rep), rep['start_number']
    now_ticks_num = tv[1] * ts            # now in ticks * 10^6
    out = []
    k_hi = now_ticks_num // (sd * 10**6) - 1          # (k+1)*sd <= now
    k_lo = -((tv[2] * ts * 10**6 + 2 * sd * 10**6 - now_ticks_num) // (sd * 10**6))  # ceil((now - tsbd*ts)/sd - 2)
    for k in range(max(0, k_lo), k_hi + 1):
        lo = (k + 1) * sd * 10**6
        hi = ((k + 2) * sd + tv[2] * ts) * 10**6
        if lo <= now_ticks_num <= hi:
            out.append(sn + k)
    return out


def oracle(ctx, rec):
    if rec['degenerate'] or not rec['live']:
        return 0
    rep, tv = rec['rep'], rec['tv']
    tl = rec['timeline']
    if not tl or tl[0] == 'CRASH':
        return 0
    r, timing = sc.build_impl(rep, rec['tm'])
    ts = rep['ts']
    now_tc = tv[1] * ts // 10**6
    leeway_ticks_us = tv[4] * ts
    maxd = max(rep['durs'])
    sd = sc.rep_seg_dur(rep)
    served = 0
    for (t, d, m) in tl:
        if t + d > now_tc:
            continue
        out = sc.impl_media_index(r, timing, t, None)
        ctx.count('impl:advertised-time')
        if out and out[0] != 'CRASH':
            served += 1
            continue
        if out and out[0] == 'CRASH':
            ctx.violation('advertised $Time$=%d raises %s' % (t, out[1]), {'rep': rep, 'tm': rec['tm'], 'q': [t, None]})
            continue
        # refused: which rule refused it?
        nt = sc.impl_number_and_time(r, t, None)
        if not nt:
            cls = 'leeway' if leeway_ticks_us < (maxd // 2 + 1) * 10**6 else None
            why = 'availability test (start %d ticks vs firstAvailableTime - leeway)' % t
        else:
            # known only when explained by the missing start_number of $Time$ requests
            fl = rec['first_last']
            cls = 'number-window' if fl[0] <= nt[0] + rep['start_number'] <= fl[1] else None
            if cls is None and max(rep['durs']) != min(rep['durs']) and nt[0] + rep['start_number'] < fl[0]:
                # irregular durations: the timeline starts at the exact oldest segment, the number window at time // nominal duration
                cls = 'number-window-irregular'
            why = 'first/last number window (number %d, window %r)' % (nt[0], rec['first_last'])
        ctx.violation('advertised timeline entry $Time$=%d (ends %d <= now %d) is refused by the %s' % (t, t + d, now_tc, why),
                      {'rep': rep, 'tm': rec['tm'], 'q': [t, None]}, key=cls)
    for nn in advertised_numbers(rep, tv):
        out = sc.impl_media_index(r, timing, None, nn)
        ctx.count('impl:advertised-number')
        if out and out[0] != 'CRASH':
            served += 1
            continue
        if out and out[0] == 'CRASH':
            ctx.violation('advertised $Number$=%d raises %s' % (nn, out[1]), {'rep': rep, 'tm': rec['tm'], 'q': [None, nn]})
            continue
        nt = sc.impl_number_and_time(r, None, nn)
        if not nt:
            cls = 'leeway' if leeway_ticks_us < 2 * sd * 10**6 + 10**6 else None
            why = 'availability test'
        else:
            cls = None
            why = 'first/last number window %r' % (rec['first_last'],)
        ctx.violation('$Number$=%d is inside its 5.3.9.5.3 availability window but refused by the %s' % (nn, why),
                      {'rep': rep, 'tm': rec['tm'], 'q': [None, nn]}, key=cls)
    return served


def witness(ctx):
    """theorem C01_refuted_leeway on the real code"""
    rep = {'ts': 10, 'durs': [40, 40], 'seg_dur': 40, 'start_number': 1, 'rts': 10, 'ref_dur': 80, 'ref_nseg': 2,
           'ref_seg_dur': 40, 'kind': 'witness'}
    tm = {'elapsed': 11900000, 'depth': 10, 'leeway': 0, 'live': True}
    r, timing = sc.build_impl(rep, tm)
    tl = sc.impl_timeline(r)
    out = sc.impl_media_index(r, timing, tl[0][0], None)
    mo = sc.run_model([sc.model_serve(rep, sc.timing_vals(timing), tl[0][0], None)])[0]
    if sc.serve_from_index(rep, out) != mo:
        ctx.disagree('witness', {'rep': rep, 'tm': tm}, mo, out)
    if not out:
        ctx.violation('first timeline entry $Time$=%d refused with leeway=0' % tl[0][0], {'rep': rep, 'tm': tm, 'q': [tl[0][0], None]},
                      key='leeway')


def run(ctx):
    common.proof_step(ctx)
    ctx.trusted += ['float rounding modelled as exact rationals (float-boundary cases counted, not diffed)',
                    'the URL half (BaseURL + template + query string) is checked over HTTP only: manifest URLs are fetched as printed']
    ctx.assumptions += ['rep_ok', 'C01_time_available_partial assumes leeway*timescale >= (max_d/2 + 1)*10^6 (known finding: leeway)']
    recs = sc.evaluate(ctx, 1200 if ctx.quick() else 30000, live_ratio=1.0)
    for rec in recs:
        if oracle(ctx, rec):
            ctx.nontriv(sc.rep_key(rec['rep']) + (rec['tm']['elapsed'],))
    witness(ctx)
    from .. import seghttp, manifesthttp
    seghttp.suite(ctx, 'C01')
    manifesthttp.advertised_suite(ctx)


def replay(ctx, payload):
    bad = 0
    for v in payload.get('violations', []):
        inp = v['input']
        if 'rep' in inp and 'q' in inp:
            r, timing = sc.build_impl(inp['rep'], inp['tm'])
            out = sc.impl_media_index(r, timing, inp['q'][0], inp['q'][1])
            print('replay:', inp['q'], '->', out or 'refused (404)')
            bad += 0 if (out and out[0] != 'CRASH') else 1
        else:
            print('replay: HTTP-level input', inp)
            bad += 1
    return 1 if bad else 0
