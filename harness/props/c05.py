"""C05 - every manifest response is well-formed, structurally valid DASH.
Theorems: coq/Props/C05.v (escaping argument over the generated table of ALL template output sites).
Translator: harness/translators/template_sites.py (Jinja lexer + live jinja_env).  Correspondence: the
real markupsafe.escape / xmlSafe filter vs Model/XmlModel.v on hostile strings.  Oracle (lxml + a rule set
written from ISO/IEC 23009-1): every 200 response of every manifest template / patch x mode x single and
multi-period x hostile stored strings, query values and Host headers is well-formed, carries the hostile
strings only as character data / attribute values (no canary element or attribute appears), and satisfies
the structural rules."""
import re
import urllib.parse

from .. import common

RULE = ('9 manifest templates + the patch template x {vod, live} x single / multi-period x option vectors (drm, events, time source, '
        'timeline, patch, base URLs) x hostile alphabets (& < > " \' ]]> --> unicode, 300-character strings, canary markup) placed in: '
        'stream title, multi-period name / title / period ids, stored licence URLs, every string-valued query option, the Host header. '
        'Non-trivial: a 200 XML response that contains at least one hostile string as data; distinct by URL + placement')

CANARY = '<canary injected="1"/>'
HOSTILE = ['A & B', 'x<y', 'a"b', "it's", ']]>', '-->', '<!--', CANARY, '"><canary injected="1">', "'/><canary/>", '&amp;', '&#60;', '&bogus;',
           'café ☃', 'x' * 300, '%3Ccanary%3E', '<![CDATA[', '\t\n', '$Bogus$', '{cfgs}']

MPD_NS = 'urn:mpeg:dash:schema:mpd:2011'
DUR_RE = re.compile(r'^P(?:\d+Y)?(?:\d+M)?(?:\d+D)?(?:T(?:\d+H)?(?:\d+M)?(?:\d+(?:\.\d+)?S)?)?$')
DT_RE = re.compile(r'^\d{4}-\d{2}-\d{2}T\d{2}:\d{2}:\d{2}(?:\.\d+)?(?:Z|[+-]\d{2}:\d{2})?$')
DURATION_ATTRS = {'mediaPresentationDuration', 'minBufferTime', 'timeShiftBufferDepth', 'minimumUpdatePeriod', 'suggestedPresentationDelay',
                  'maxSegmentDuration', 'maxSubsegmentDuration'}
DATETIME_ATTRS = {'availabilityStartTime', 'availabilityEndTime', 'publishTime'}
UINT_ATTRS = {'timescale', 'startNumber', 'bandwidth', 'width', 'height', 'presentationTimeOffset', 'maxWidth', 'maxHeight', 'minWidth',
              'minHeight', 'minBandwidth', 'maxBandwidth', 'audioSamplingRate', 'startWithSAP', 'd', 't', 'n', 'indexRange_', 'ttl'}
TEMPLATE_IDS = {'RepresentationID', 'Number', 'Time', 'Bandwidth', ''}


def local(tag):
    return tag.split('}')[-1] if isinstance(tag, str) else ''


def structural(root, url):
    """-> list of rule violations of one MPD document"""
    out = []
    if local(root.tag) != 'MPD':
        return ['root element is %s' % local(root.tag)]
    typ = root.get('type', 'static')
    for a in ('profiles', 'minBufferTime'):
        if not root.get(a):
            out.append('MPD@%s is required' % a)
    if typ == 'dynamic':
        for a in ('availabilityStartTime', 'publishTime'):
            if not root.get(a):
                out.append('MPD@%s is required for type="dynamic"' % a)
    else:
        if not root.get('mediaPresentationDuration') and not any(p.get('duration') for p in root if local(p.tag) == 'Period'):
            out.append('MPD@mediaPresentationDuration (or a Period@duration) is required for type="static"')
    for el in root.iter():
        if not isinstance(el.tag, str):
            continue
        name = local(el.tag)
        for a, v in el.attrib.items():
            an = local(a)
            if an in DURATION_ATTRS or (name == 'Period' and an in ('start', 'duration')):
                if not DUR_RE.match(v) or v in ('P', 'PT'):
                    out.append('%s@%s="%s" is not a non-negative xs:duration' % (name, an, v[:40]))
            elif an in DATETIME_ATTRS:
                if not DT_RE.match(v):
                    out.append('%s@%s="%s" is not an xs:dateTime' % (name, an, v[:40]))
            elif an in UINT_ATTRS or (an == 'duration' and name in ('SegmentTemplate', 'SegmentList', 'Event')) or \
                    (an == 'id' and name in ('AdaptationSet', 'Event')):
                if not re.match(r'^\d+$', v):
                    out.append('%s@%s="%s" is not an unsigned integer' % (name, an, v[:40]))
            elif an == 'r' and name == 'S':
                if not re.match(r'^(-1|\d+)$', v):
                    out.append('S@r="%s" is not an integer >= -1' % v[:40])
            if an in ('media', 'initialization', 'index') and name in ('SegmentTemplate',):
                qpos = v.find('?')
                for m in re.finditer(r'\$([^$]*)\$', v):
                    ident = re.sub(r'%0\d+d$', '', m.group(1))
                    if ident not in TEMPLATE_IDS:
                        where = 'query' if 0 <= qpos < m.start() else 'path'
                        out.append('%s@%s uses the identifier $%s$ in its %s' % (name, an, m.group(1)[:30], where))
    pids = [p.get('id') for p in root if local(p.tag) == 'Period' and p.get('id') is not None]
    if len(pids) != len(set(pids)):
        out.append('Period ids are not unique: %s' % pids)
    for p in root:
        if local(p.tag) != 'Period':
            continue
        aids = [a.get('id') for a in p if local(a.tag) == 'AdaptationSet' and a.get('id') is not None]
        if len(aids) != len(set(aids)):
            out.append('AdaptationSet ids are not unique in Period %s: %s' % (p.get('id'), aids))
        rids = []
        n_adp = 0
        for a in p:
            if local(a.tag) != 'AdaptationSet':
                continue
            n_adp += 1
            reps = [r for r in a if local(r.tag) == 'Representation']
            if not reps:
                out.append('AdaptationSet %s of Period %s is empty' % (a.get('id'), p.get('id')))
            rids += [r.get('id') for r in reps]
        if len(rids) != len(set(rids)):
            out.append('Representation ids are not unique in Period %s' % p.get('id'))
        if n_adp == 0:
            out.append('Period %s has no AdaptationSet' % p.get('id'))
    return out


def canary_found(root):
    for el in root.iter():
        if not isinstance(el.tag, str):
            continue
        if local(el.tag).lower() == 'canary' or any(local(a) == 'injected' for a in el.attrib):
            return True
    return False


def escape_corr(ctx, env):
    import markupsafe
    rng = ctx.rng
    f = env.app.jinja_env.filters['xmlSafe']
    texts = list(HOSTILE) + ['', '&', '<', '>', '"', "'", '&&', 'a&b<c>d"e\'f']
    alphabet = '&<>"\'ab;#34 é'
    for _ in range(200 if ctx.quick() else 5000):
        texts.append(''.join(rng.choice(alphabet) for _ in range(rng.randint(0, 12))))
    reqs, meta = [], []
    for t in texts:
        codes = [ord(ch) for ch in t]
        reqs.append([0, codes])
        meta.append(('markupsafe.escape', t, [ord(ch) for ch in str(markupsafe.escape(t))]))
        reqs.append([0, codes])
        meta.append(('xmlSafe', t, [ord(ch) for ch in str(f(t))]))
        for cx, q in ((0, 0), (1, 34), (1, 39)):
            out = str(markupsafe.escape(t))
            ok = '<' not in out and (cx == 0 or chr(q) not in out) and \
                all(out[i:].startswith(('&amp;', '&lt;', '&gt;', '&#34;', '&#39;')) for i, ch in enumerate(out) if ch == '&')
            reqs.append([2, cx, q, [ord(ch) for ch in out]])
            meta.append(('ctx_safe', t, 1 if ok else 0))
    res = common.run_model_parallel(5, reqs)
    ok = True
    for (what, t, want), m in zip(meta, res):
        ctx.count('corr:' + what)
        if m != want:
            ok = False
            ctx.disagree(what, {'text': t}, m, want)
    ctx.oblige('correspondence:markupsafe.escape/xmlSafe-vs-XmlModel', ok)
    if not isinstance(f('a'), markupsafe.Markup):
        ctx.violation('the xmlSafe filter does not mark its result safe: autoescaped templates escape "&" twice', {'text': 'a&b'})


def check_doc(ctx, url, data, placement, inp, want_patch=False):
    from lxml import etree
    try:
        root = etree.fromstring(data)
    except etree.XMLSyntaxError as e:
        ctx.violation('%s [%s]: the 200 response is not well-formed XML: %s' % (url, placement, str(e)[:100]), inp)
        return None
    if canary_found(root):
        ctx.violation('%s [%s]: a stored / requested string added an element or attribute to the document' % (url, placement), inp)
        return None
    if local(root.tag) == 'MPD':
        probs = structural(root, url)
        for p in probs[:3]:
            ctx.violation('%s [%s]: %s' % (url, placement, p), inp, key='template-identifier-in-query' if p.endswith('in its query') else None)
    return root


def manifest_suite(ctx, env):
    from ..appenv import Clock, utc
    rng = ctx.rng
    models = env.models
    templates = ['hand_made.mpd', 'manifest_a.mpd', 'manifest_b.mpd', 'manifest_e.mpd', 'manifest_ef.mpd', 'manifest_h.mpd',
                 'manifest_i.mpd', 'manifest_n.mpd', 'manifest_vod_aiv.mpd']
    string_opts = ['acodec', 'ad_audio', 'main_audio', 'main_text', 'tcodec', 'tlang', 'time_value', 'ping__value', 'scte35__value',
                   'playready__la_url', 'clearkey__la_url', 'marlin__la_url', 'ntp_servers', 'player', 'bugs', 'events', 'vcorrupt']
    base_q = ['', 'drm=all', 'drm=playready&playready__version=4.0', 'events=ping,scte35', 'time=xsd', 'time=direct', 'time=ntp', 'timeline=1',
              'patch=1', 'base=1', 'abr=0', 'drm=clearkey&events=ping&time=http-ntp', 'depth=20&mup=4', 'start=epoch', 'leeway=0',
              'mup=-1', 'mup=0', 'patch=1&mup=-1', 'depth=600', 'depth=0', 'start=2030-01-01T00:00:00Z', 'start=now', 'start=today&depth=7200',
              'drift=30', 'ping__value=$Foo$&events=ping', 'timeline=1&depth=300']
    c = env.client()
    n_each = 3 if ctx.quick() else 24
    with Clock(utc(2024, 3, 5, 12, 0, 7)):
        for tmpl in templates:
            for mode in ('vod', 'live'):
                for kind in ('single', 'mps', 'mps1p'):
                    for k in range(n_each):
                        hostile = rng.choice(HOSTILE)
                        place = rng.choice(['title', 'query', 'host', 'la_url', 'none'] if kind == 'single' else
                                           ['mps', 'query', 'host', 'none'] if kind == 'mps' else ['query', 'none', 'none'])
                        q = [rng.choice(base_q)]
                        headers = {}
                        with env.app.app_context():
                            s = models.Stream.get(directory='bbb')
                            s.title = 'Big Buck Bunny'
                            s.playready_la_url = 'https://lic.example/rm?cfg={cfgs}'
                            s.marlin_la_url = 'ms3://lic.example/marlin'
                            m = models.MultiPeriodStream.get(name='mps1')
                            m.title = 'two periods'
                            for i, p in enumerate(m.periods):
                                p.pid = 'p%d' % (i + 1)
                            if place == 'title':
                                s.title = hostile
                            elif place == 'la_url':
                                s.playready_la_url = 'https://lic.example/?a=' + hostile
                                s.marlin_la_url = 'ms3://' + hostile
                                q.append('drm=all')
                            elif place == 'mps':
                                m.title = hostile
                                m.periods[0].pid = hostile[:60]
                            models.db.session.commit()
                        if place == 'query':
                            for _ in range(rng.randint(1, 3)):
                                q.append('%s=%s' % (rng.choice(string_opts), urllib.parse.quote(rng.choice(HOSTILE))))
                        elif place == 'host':
                            headers['Host'] = rng.choice(['exa"mple.com', 'a<b.example', "x'y", 'h&k', 'good.example:8080', 'a b'])
                        qs = '&'.join(x for x in q if x)
                        base = '/dash/%s/bbb/%s' % (mode, tmpl) if kind == 'single' else '/mps/%s/%s/%s' % (mode, 'mps1' if kind == 'mps' else 'solo', tmpl)
                        url = base + ('?' + qs if qs else '')
                        try:
                            r = c.get(url, headers=headers)
                        except Exception as e:  # noqa
                            ctx.dist('client-error:%s' % type(e).__name__)
                            continue
                        ctx.count('http:manifest')
                        ctx.dist('status:%d' % r.status_code)
                        inp = {'url': url, 'placement': place, 'hostile': hostile, 'headers': headers}
                        if r.status_code != 200:
                            if r.status_code >= 500:
                                ctx.violation('%s [%s] answers %d' % (url, place, r.status_code), inp)
                            continue
                        root = check_doc(ctx, url, r.data, place, inp)
                        if root is None:
                            continue
                        text = r.get_data(as_text=True)
                        if place == 'title' and hostile.strip():
                            titles = [e.text or '' for e in root.iter('{%s}Title' % MPD_NS)]
                            if titles and titles[0].strip() != hostile.strip():
                                ctx.violation('%s: the stored title %r appears as %r' % (url, hostile[:40], titles[0][:40]), inp)
                        if place != 'none':
                            ctx.nontriv((url, place, hostile))
                        # the patch of a live single-period manifest that advertises one
                        for pl in root.iter('{%s}PatchLocation' % MPD_NS):
                            loc = (pl.text or '').strip()
                            path = urllib.parse.urlsplit(loc)
                            pr = c.get(path.path + ('?' + path.query if path.query else ''), headers=headers)
                            ctx.count('http:patch')
                            if pr.status_code == 200:
                                check_doc(ctx, loc, pr.data, place + '/patch', inp)
                            elif pr.status_code >= 500:
                                ctx.violation('%s (PatchLocation of %s) answers %d' % (loc, url, pr.status_code), inp)
        with env.app.app_context():
            s = models.Stream.get(directory='bbb')
            s.title = 'Big Buck Bunny'
            models.db.session.commit()
        # xs:dateTime at the edges of the year range (a four-digit year is required; Python's own strftime does not pad)
        for tmpl in templates:
            for start in ('0001-01-01T00:00:00Z', '0099-06-01T00:00:00Z', '0900-01-01T00:00:00Z', '0999-12-31T23:59:59Z',
                          '1000-01-01T00:00:00Z', '1969-12-31T23:59:59Z', '0900-01-01T00:00:00.500Z', '0900-01-01T01:00:00%2B01:00'):
                url = '/dash/live/bbb/%s?start=%s' % (tmpl, start)
                try:
                    r = c.get(url)
                except Exception as e:  # noqa
                    ctx.dist('client-error:%s' % type(e).__name__)
                    continue
                ctx.count('http:manifest-year-range')
                ctx.dist('status:%d' % r.status_code)
                if r.status_code >= 500:
                    ctx.violation('%s answers %d' % (url, r.status_code), {'url': url})
                elif r.status_code == 200:
                    check_doc(ctx, url, r.data, 'none', {'url': url, 'placement': 'none', 'hostile': '', 'headers': {}})


def gen_sites(ctx):
    from ..translators import template_sites
    rows, changed = template_sites.generate()
    ctx._sites = rows
    ctx.notes.append('Gen/TemplateSites.v: %d output sites in %d templates (%s); autoescaped: %d; xmlSafe = %s'
                     % (len(rows), len({r['tpl'] for r in rows}), 'rewritten' if changed else 'unchanged',
                        sum(1 for r in rows if r['auto']), sorted({f for r in rows for f in r['filters'] if f in ('FEscape', 'FAmpOnly')})))


def run(ctx):
    import logging
    logging.disable(logging.CRITICAL)
    common.proof_step(ctx, gen=[gen_sites])
    ctx.trusted += ['translator harness/translators/template_sites.py: lexical context by a scanner over the literal template text; head '
                    'expressions listed as inert (numbers, durations, enumerations) are a reviewed list, validated by the hostile runs',
                    'trusted markup sites (4): drm/custom_attributes.xml element name / attribute list, events/event_stream.xml SCTE-35 XML payload',
                    'Jinja2 / markupsafe themselves (autoescape applies markupsafe.escape to every value not marked safe)',
                    'lxml as the well-formedness judge; the structural rule set in this file is written from ISO/IEC 23009-1, not the XSD']
    ctx.assumptions += ['structural MPD rules are decided dynamically (oracle), not proved: PARTIAL']
    from ..appenv import AppEnv
    env = AppEnv(ctx.workdir, streams=('bbb',))
    logging.disable(logging.CRITICAL)
    env.add_mps('mps1', [dict(pid='p1', stream='bbb', start_s=0, duration_s=20), dict(pid='p2', stream='bbb', start_s=8, duration_s=16)])
    env.add_mps('solo', [dict(pid='only', stream='bbb', start_s=0, duration_s=12)])
    escape_corr(ctx, env)
    manifest_suite(ctx, env)
    env.close()


def replay(ctx, payload):
    for v in payload.get('violations', []):
        print('replay:', v['what'])
    return 1 if payload.get('violations') else 0
