"""C11 - DRM key and licence data is cryptographically and structurally correct.
Theorems: coq/Props/C11.v.  Correspondence: PlayReady.hex_to_le_guid / generate_content_key /
generate_pro / parse_pro and the ClearKey licence handler of /repo vs Model/DrmModel.v.  Oracles
written from the specifications: RFC 4122 (uuid.UUID.bytes_le), Microsoft's key-seed algorithm
(hashlib), the PRO layout (own parser), AES-128-ECB checksum, base64url (RFC 4648 section 5)."""
import base64
import hashlib
import io
import struct
import urllib.parse
import uuid
import xml.etree.ElementTree as ET

from .. import common

RULE = ('random and boundary 16-byte key ids and keys (all 0x00, all 0xFF, single bits), seeds of 30..64 bytes (and equal-prefix pairs), '
        'licence URLs with reserved characters (& < > " { } + % space) and format fields, key sets of 1..3, PlayReady versions 1.0-4.0 / '
        'header versions 4.0-4.3; ClearKey requests mixing known, unknown, duplicate and malformed ids; manifests with every DRM '
        'selection x location subset: ContentProtection elements vs the init segment. Non-trivial: a PRO that parses back / a '
        'response with >= 1 key; distinct by input')

WRM_NS = '{http://schemas.microsoft.com/DRM/2007/03/PlayReadyHeader}'


def ms_content_key(kid, seed):
    """Microsoft PlayReady key-seed algorithm, from the published description"""
    g = uuid.UUID(bytes=kid).bytes_le
    s = seed[:30]
    a = hashlib.sha256(s + g).digest()
    b = hashlib.sha256(s + g + s).digest()
    c = hashlib.sha256(s + g + s + g).digest()
    return bytes(a[i] ^ a[i + 16] ^ b[i] ^ b[i + 16] ^ c[i] ^ c[i + 16] for i in range(16)), (a, b, c)


def aes_ecb_block(key, block):
    from Crypto.Cipher import AES
    return AES.new(key, AES.MODE_ECB).encrypt(block)


def own_parse_pro(data):
    length, count = struct.unpack('<IH', data[:6])
    pos = 6
    out = []
    for _ in range(count):
        rt, rl = struct.unpack('<HH', data[pos:pos + 4])
        pos += 4
        out.append((rt, rl, data[pos:pos + rl]))
        pos += rl
    return length, out, pos


def b64url(b):
    return base64.urlsafe_b64encode(b).decode().rstrip('=')


def gen_kid(rng):
    r = rng.random()
    if r < 0.1:
        return bytes(16)
    if r < 0.2:
        return bytes([255] * 16)
    if r < 0.3:
        b = bytearray(16)
        b[rng.randrange(16)] = 1 << rng.randrange(8)
        return bytes(b)
    return bytes(rng.randrange(256) for _ in range(16))


def pure_suite(ctx):
    from dashlive.drm.playready import PlayReady
    rng = ctx.rng
    n = 300 if ctx.quick() else 20000
    reqs, meta = [], []
    for _ in range(n):
        kid = gen_kid(rng)
        seed = bytes(rng.randrange(256) for _ in range(rng.choice([30, 31, 40, 64])))
        ctx.count('impl:guid+key')
        g = PlayReady.hex_to_le_guid(kid, raw=True)
        inp = {'kid': kid.hex(), 'seed': seed.hex()}
        if g != uuid.UUID(bytes=kid).bytes_le:
            ctx.violation('hex_to_le_guid(%s) = %s, RFC 4122 bytes_le is %s' % (kid.hex(), g.hex(), uuid.UUID(bytes=kid).bytes_le.hex()), inp)
        if PlayReady.hex_to_le_guid(g, raw=True) != kid:
            ctx.violation('hex_to_le_guid is not its own inverse on %s' % kid.hex(), inp)
        txt = PlayReady.hex_to_le_guid(str(uuid.UUID(bytes=kid)), raw=False)
        if txt.replace('-', '') != g.hex():
            ctx.violation('hex_to_le_guid text form %s disagrees with the raw form %s' % (txt, g.hex()), inp)
        key = bytes(PlayReady.generate_content_key(kid, seed))
        want, (a, b, c) = ms_content_key(kid, seed)
        if key != want:
            ctx.violation('generate_content_key(%s, seed) = %s, the key-seed algorithm gives %s' % (kid.hex(), key.hex(), want.hex()), inp)
        key2 = bytes(PlayReady.generate_content_key(kid, seed + b'tail'))
        if key2 != key:
            ctx.violation('content key depends on seed bytes beyond the first 30', inp)
        reqs.append([0, list(kid)])
        meta.append(('le_guid', inp, list(g)))
        reqs.append([5, list(a), list(b), list(c)])
        meta.append(('content_key-fold', inp, list(key)))
        blob = bytes(rng.randrange(256) for _ in range(rng.choice([0, 1, 2, 3, 16, 17, rng.randint(0, 40)])))
        reqs.append([3, list(blob)])
        meta.append(('b64url_encode', {'bytes': blob.hex()}, [ord(ch) for ch in b64url(blob)]))
        reqs.append([4, [ord(ch) for ch in b64url(blob)]])
        meta.append(('b64url_decode', {'bytes': blob.hex()}, [list(blob)]))
    res = common.run_model_parallel(11, reqs)
    ok = True
    for (what, inp, want), m in zip(meta, res):
        ctx.count('corr:' + what)
        if m != want:
            ok = False
            ctx.disagree(what, inp, m, want)
    ctx.oblige('correspondence:PlayReady.hex_to_le_guid/key fold/base64url-vs-DrmModel', ok)


def pro_suite(ctx, env):
    from dashlive.drm.playready import PlayReady
    from dashlive.drm.keymaterial import KeyMaterial
    from dashlive.server import models
    rng = ctx.rng
    urls = ['https://lic.example/rm.asmx?cfg={cfgs}', 'https://lic.example/a?x=1&y=2', 'https://lic.example/q?a=<b>&c="d"',
            'https://lic.example/{default_kid}', 'https://lic.example/plain', "https://lic.example/it's?a=1&amp;b=2",
            'https://lic.example/sp ace+plus%25']
    reqs, meta = [], []
    n = 40 if ctx.quick() else 1200
    with env.app.test_request_context('/'):
        for i in range(n):
            nkeys = rng.choice([1, 1, 2, 3])
            keys = {}
            for _ in range(nkeys):
                kid, key = gen_kid(rng), gen_kid(rng)
                if kid.hex() in keys:
                    continue
                k = models.Key(hkid=kid.hex(), hkey=key.hex(), computed=rng.random() < 0.5)
                keys[kid.hex()] = k
            default_kid = rng.choice(list(keys))
            version = rng.choice([None, 2.0, 3.0, 4.0])
            hv = rng.choice([None, None, 4.0, 4.1, 4.2, 4.3])
            la = rng.choice(urls)
            pr = PlayReady(version=version, header_version=hv)
            ctx.count('impl:pro')
            inp = {'la_url': la, 'kids': list(keys), 'version': version, 'header_version': hv}
            try:
                pro = pr.generate_pro(la, default_kid, keys, None)
            except ValueError:
                ctx.dist('pro-rejected(header/version mismatch)')
                continue
            except Exception as e:  # noqa
                ctx.violation('generate_pro raised %s: %s' % (type(e).__name__, str(e)[:80]), inp)
                continue
            # ---- oracle: framing, then the WRMHEADER names the same key ids, URL and checksums
            try:
                length, recs, end = own_parse_pro(pro)
            except Exception as e:  # noqa
                ctx.violation('generated PRO does not follow the record layout: %s' % type(e).__name__, inp)
                continue
            if length != len(pro) or end != len(pro) or len(recs) != 1 or recs[0][0] != 1:
                ctx.violation('PRO framing: length field %d, %d bytes, %d records' % (length, len(pro), len(recs)), inp)
                continue
            wrm = recs[0][2]
            try:
                xml = ET.fromstring(wrm.decode('utf-16-le'))
            except ET.ParseError as e:
                ctx.violation('WRMHEADER is not well-formed XML: %s' % e, inp)
                continue
            dk = keys[default_kid]
            cfgs = []
            for k in keys.values():
                g = uuid.UUID(bytes=k.KID.raw).bytes_le
                cfg = ['kid:' + base64.b64encode(g).decode(), 'persist:false', 'sl:150']
                if not k.computed:
                    cfg.append('contentkey:' + base64.b64encode(k.KEY.raw).decode())
                cfgs.append('(' + ','.join(cfg) + ')')
            want_url = la.format(cfgs=','.join(cfgs), default_kid=dk.KID.hex, kids=[uuid.UUID(bytes=k.KID.raw).bytes_le for k in keys.values()])
            got_url = (xml.find('.//%sLA_URL' % WRM_NS).text or '')
            if got_url != want_url:
                ctx.violation('the PRO names licence URL %r, the request asked for %r' % (got_url, want_url), inp, key=None)
            named = set()
            sums = {}
            for e in xml.iter():
                if e.tag == WRM_NS + 'KID':
                    val = e.get('VALUE') or e.text
                    if val:
                        named.add(base64.b64decode(val))
                        cs = e.get('CHECKSUM')
                        if cs:
                            sums[base64.b64decode(val)] = base64.b64decode(cs)
            cse = xml.find('.//%sCHECKSUM' % WRM_NS)
            dg = uuid.UUID(bytes=dk.KID.raw).bytes_le
            if cse is not None and cse.text:
                sums[dg] = base64.b64decode(cse.text)
            version_attr = xml.get('version', '')
            want_named = {dg} if version_attr.startswith('4.0') or version_attr.startswith('4.1') else \
                {uuid.UUID(bytes=k.KID.raw).bytes_le for k in keys.values()}
            if named != want_named:
                ctx.violation('WRMHEADER %s names key ids %s, expected %s' % (version_attr, sorted(x.hex() for x in named),
                                                                                sorted(x.hex() for x in want_named)), inp)
            for g, cs in sums.items():
                kk = [k for k in keys.values() if uuid.UUID(bytes=k.KID.raw).bytes_le == g]
                if kk and cs != aes_ecb_block(kk[0].KEY.raw, g)[:8]:
                    ctx.violation('checksum of key id %s is not AES-ECB(key, kid)[:8]' % g.hex(), inp)
            # the library's own parser
            try:
                back = PlayReady.parse_pro(io.BytesIO(pro))
                if len(back) != 1 or back[0].record_type != 1 or back[0].length != len(wrm):
                    ctx.violation('parse_pro(generate_pro) = %r' % back, inp)
            except Exception as e:  # noqa
                ctx.violation('parse_pro raised %s on a generated PRO' % type(e).__name__, inp)
            ctx.nontriv(('pro', la, tuple(keys), version, hv))
            reqs.append([1, list(wrm)])
            meta.append(('generate_pro', inp, list(pro)))
            reqs.append([2, list(pro)])
            meta.append(('parse_pro', inp, [[[1, len(wrm), list(wrm)]]]))
    res = common.run_model_parallel(11, reqs)
    ok = True
    for (what, inp, want), m in zip(meta, res):
        ctx.count('corr:' + what)
        if m != want:
            ok = False
            ctx.disagree(what, inp, (m[:30] if isinstance(m, list) else m), want[:30])
    ctx.oblige('correspondence:generate_pro/parse_pro-vs-DrmModel', ok)


def clearkey_suite(ctx, env):
    rng = ctx.rng
    c = env.client()
    with env.app.app_context():
        store = [(k.KID.raw, k.KEY.raw) for k in env.models.Key.all()]
    known = [k for k, _ in store]
    reqs, meta = [], []
    for i in range(60 if ctx.quick() else 1500):
        req = []
        for _ in range(rng.randint(0, 5)):
            r = rng.random()
            if r < 0.5 and known:
                req.append(rng.choice(known))
            elif r < 0.8:
                req.append(gen_kid(rng))
            else:
                req.append(req[-1] if req else gen_kid(rng))
        malformed = rng.random() < 0.15
        kids_txt = [b64url(k) for k in req]
        if malformed:
            kids_txt.append(rng.choice(['*', 'AA', 'not base64 !', '']))
        r = c.post('/clearkey', json={'kids': kids_txt, 'type': 'temporary'})
        ctx.count('http:clearkey')
        inp = {'kids': kids_txt}
        if r.status_code >= 500:
            ctx.violation('POST /clearkey answers %d' % r.status_code, inp)
            continue
        js = r.get_json(silent=True) or {}
        got = [(x.get('kid'), x.get('k')) for x in js.get('keys', [])] if isinstance(js, dict) else None
        if malformed:
            continue
        want = []
        for kid in dict.fromkeys(req):
            for k, v in store:
                if k == kid:
                    want.append((b64url(k), b64url(v)))
        if got is None or sorted(got) != sorted(want):
            ctx.violation('ClearKey licence for %r returns %r, the store says %r' % (kids_txt, got, want), inp)
        for kid_t, key_t in got or []:
            if any(ch in (kid_t + key_t) for ch in '+/='):
                ctx.violation('ClearKey response is not unpadded base64url: %r' % ((kid_t, key_t),), inp)
        if got:
            ctx.nontriv(('ck', tuple(kids_txt)))
        reqs.append([6, [[list(k), list(v)] for k, v in store], [list(k) for k in req]])
        meta.append((inp, sorted([[list(base64.urlsafe_b64decode(a + '==')), list(base64.urlsafe_b64decode(b + '=='))] for a, b in (got or [])])))
    res = common.run_model_parallel(11, reqs)
    ok = True
    for (inp, want), m in zip(meta, res):
        ctx.count('corr:clearkey')
        if sorted(m) != want:
            ok = False
            ctx.disagree('clearkey', inp, m, want)
    ctx.oblige('correspondence:HTTP(/clearkey)-vs-DrmModel.clearkey_response', ok)
    # other payload shapes must not produce 5xx
    for body in ([], 'x', {'kids': 'AAAA'}, {'kids': [1, 2]}, {'type': 'temporary'}, {'kids': [None]}):
        r = c.post('/clearkey', json=body)
        ctx.count('http:clearkey-malformed')
        if r.status_code >= 500:
            ctx.violation('POST /clearkey with body %r answers %d' % (body, r.status_code), {'body': repr(body)}, key='clearkey-body-shape')


def pssh_fields(raw):
    """-> (system id, [kids], data) of a pssh box given as bytes"""
    ver = raw[8]
    sysid = raw[12:28]
    pos = 28
    kids = []
    if ver > 0:
        n = struct.unpack('>I', raw[pos:pos + 4])[0]
        pos += 4
        for _ in range(n):
            kids.append(raw[pos:pos + 16])
            pos += 16
    dl = struct.unpack('>I', raw[pos:pos + 4])[0]
    return sysid, kids, raw[pos + 4:pos + 4 + dl]


def pro_kids(pro):
    """key ids (big-endian bytes) named by the WRMHEADER inside a PRO"""
    _, recs, _ = own_parse_pro(pro)
    xml = ET.fromstring(recs[0][2].decode('utf-16-le'))
    out = set()
    for e in xml.iter():
        if e.tag == WRM_NS + 'KID':
            val = e.get('VALUE') or e.text
            if val:
                out.add(uuid.UUID(bytes_le=base64.b64decode(val)).bytes)
    return out


def pro_la_url(pro):
    """the LA_URL element of the WRMHEADER inside a PRO"""
    _, recs, _ = own_parse_pro(pro)
    xml = ET.fromstring(recs[0][2].decode('utf-16-le'))
    e = xml.find('.//%sLA_URL' % WRM_NS)
    return None if e is None else (e.text or '')


PR_SYS = bytes.fromhex('9a04f07998404286ab92e65be0885f95')
CK_SYS = bytes.fromhex('1077efecc0b24d02ace33c1e52e2fb4b')


def manifest_suite(ctx, env):
    """ContentProtection elements match the systems/locations requested; default_KID; embedded pssh/pro = init segment pssh"""
    from ..appenv import Clock, utc
    from ..manifesthttp import Mpd, NS
    from .. import boxwalk
    c = env.client()
    CENC = '{urn:mpeg:cenc:2013}'
    MSPR = '{urn:microsoft:playready}'
    sels = ['all', 'playready', 'clearkey', 'marlin', 'playready-cenc', 'playready-pro', 'playready-moov', 'playready-pro-cenc',
            'clearkey-cenc', 'clearkey-moov', 'playready,clearkey', 'playready-moov,marlin', 'playready-cenc-moov,clearkey-cenc-moov',
            'clearkey-cenc,playready', 'marlin-cenc,clearkey,playready-pro']
    manifests = ['hand_made.mpd', 'manifest_e.mpd'] if ctx.quick() else \
        ['hand_made.mpd', 'manifest_a.mpd', 'manifest_b.mpd', 'manifest_e.mpd', 'manifest_h.mpd', 'manifest_i.mpd', 'manifest_n.mpd']
    # a template that does not list drmSelection among its features drops the option (clear representations, no ContentProtection)
    from dashlive.server import manifests as _mf
    manifests = [m for m in manifests if 'drmSelection' in _mf.manifest_map[m].features]
    tracks = {'video': ('bbb_v7_enc', 'm4v'), 'audio': ('bbb_a1_enc', 'm4a')}
    kid_of = {}
    with env.app.app_context():
        for ct, (nme, _) in tracks.items():
            rep = env.models.MediaFile.get(name=nme).representation
            kid_of[ct] = bytes.fromhex(str(rep.default_kid).replace('-', ''))
    with Clock(utc(2024, 3, 5, 12, 0, 7)):
        for mname in manifests:
            for mode in (['vod'] if ctx.quick() else ['vod', 'live']):
                for sel in sels:
                    # a licence URL given on the request (percent-encoded once, as a query value is) must appear in the PRO exactly:
                    # reserved characters, and a '+' and a '%41' that are part of the URL itself
                    la_choices = ['https://lic.example/a?x=1&y=2', 'https://lic.example/rm?tok=ab+cd%41&z=a b']
                    la_req = ctx.rng.choice([None, None, la_choices[0], la_choices[1]])
                    extra = ctx.rng.choice(['', '&playready__version=2.0', '&playready__version=4.0']) if la_req is None else \
                        '&playready__la_url=' + urllib.parse.quote(la_req, safe='')
                    url = '/dash/%s/bbb/%s?drm=%s%s' % (mode, mname, sel, extra)
                    r = c.get(url)
                    ctx.count('http:drm-manifest')
                    if r.status_code != 200:
                        ctx.dist('manifest-status:%d' % r.status_code)
                        if r.status_code >= 500:
                            ctx.violation('%s answers %d' % (url, r.status_code), {'url': url})
                        continue
                    try:
                        mpd = Mpd(r.data, 'http://localhost' + url)
                    except Exception as e:  # noqa
                        ctx.violation('%s is not well-formed XML: %s' % (url, str(e)[:80]), {'url': url})
                        continue
                    want = {}
                    for item in sel.split(','):
                        parts = item.split('-')
                        names = ['playready', 'clearkey', 'marlin'] if parts[0] == 'all' else [parts[0]]
                        for nme in names:
                            want[nme] = set(parts[1:]) or {'pro', 'cenc', 'moov'}
                    seen_ct = set()
                    for adp in mpd.root.iter('{%s}AdaptationSet' % NS['d']):
                        ct = adp.get('contentType') or (adp.get('mimeType') or '').split('/')[0]
                        if ct not in tracks:
                            continue
                        seen_ct.add(ct)
                        kid = kid_of[ct]
                        init = c.get('/dash/%s/bbb/%s/init.%s?drm=%s%s' % (mode, tracks[ct][0], tracks[ct][1], sel, extra))
                        init_pssh = {}
                        if init.status_code == 200:
                            for p in boxwalk.Root(init.data).find('moov').all('pssh'):
                                init_pssh[pssh_fields(bytes(p.raw))[0]] = bytes(p.raw)
                        for nme, sysid in (('playready', PR_SYS), ('clearkey', CK_SYS)):
                            if (sysid in init_pssh) != (nme in want and 'moov' in want[nme]):
                                ctx.violation('%s: init segment of %s %s a %s pssh, the locations requested %s'
                                              % (url, ct, 'carries' if sysid in init_pssh else 'lacks', nme, sorted(want.get(nme, []))), {'url': url})
                        for sysid, raw in init_pssh.items():
                            _, kids, data = pssh_fields(raw)
                            try:
                                named = pro_kids(data) if sysid == PR_SYS else set(kids)
                            except Exception as e:  # noqa
                                ctx.violation('%s: init pssh of %s does not parse: %s' % (url, ct, type(e).__name__), {'url': url})
                                continue
                            if kid not in named:
                                ctx.violation('%s: init pssh (%s) of %s names %s, the track key id is %s'
                                              % (url, sysid.hex()[:8], ct, sorted(k.hex() for k in named), kid.hex()), {'url': url})
                        cps = adp.findall('d:ContentProtection', NS) or \
                            [cp for rep in adp.findall('d:Representation', NS) for cp in rep.findall('d:ContentProtection', NS)]
                        schemes = [(cp.get('schemeIdUri') or '').lower() for cp in cps]
                        for cp in cps:
                            sch = (cp.get('schemeIdUri') or '').lower()
                            dk = cp.get(CENC + 'default_KID')
                            if dk is not None and dk.replace('-', '').lower() != kid.hex():
                                ctx.violation('%s: cenc:default_KID %s, the %s track key id is %s' % (url, dk, ct, kid.hex()), {'url': url})
                            if sch == 'urn:mpeg:dash:mp4protection:2011' and dk is None:
                                ctx.violation('%s: the mp4protection element of %s has no cenc:default_KID' % (url, ct), {'url': url})
                            which = 'playready' if '9a04f079' in sch else 'clearkey' if ('1077efec' in sch or 'e2719d58' in sch) else \
                                'marlin' if '5e629af5' in sch else None
                            ps = cp.find(CENC + 'pssh')
                            if ps is not None and ps.text and which:
                                raw = base64.b64decode(ps.text.strip())
                                sysid, kids, data = pssh_fields(raw)
                                if 'cenc' not in want.get(which, set()):
                                    ctx.violation('%s: %s carries a cenc:pssh although cenc is not among its locations' % (url, which), {'url': url})
                                if struct.unpack('>I', raw[:4])[0] != len(raw) or raw[4:8] != b'pssh':
                                    ctx.violation('%s: cenc:pssh of %s is not one complete pssh box' % (url, which), {'url': url})
                                if sysid in init_pssh and init_pssh[sysid] != raw:
                                    ctx.violation('%s: the cenc:pssh in the manifest differs from the pssh in the %s init segment (system %s)'
                                                  % (url, ct, sysid.hex()[:8]), {'url': url})
                                named = pro_kids(data) if sysid == PR_SYS else set(kids)
                                if kid not in named:
                                    ctx.violation('%s: cenc:pssh (%s) names %s, the %s track key id is %s'
                                                  % (url, which, sorted(k.hex() for k in named), ct, kid.hex()), {'url': url})
                            elif which in ('playready',) and 'cenc' in want.get(which, set()):
                                ctx.violation('%s: %s lacks the cenc:pssh its locations ask for' % (url, which), {'url': url})
                            pro = cp.find(MSPR + 'pro')
                            if pro is not None:
                                if 'pro' not in want.get('playready', set()):
                                    ctx.violation('%s: mspr:pro present although pro is not among the PlayReady locations' % url, {'url': url})
                                praw = base64.b64decode((pro.text or '').strip())
                                if la_req is not None:
                                    try:
                                        got_la = pro_la_url(praw)
                                    except Exception:  # noqa
                                        got_la = None
                                    ctx.count('http:pro-la-url')
                                    if got_la != la_req:
                                        ctx.violation('%s: the request names the licence URL %r, the mspr:pro carries %r' % (url, la_req, got_la),
                                                      {'url': url})
                                if kid not in pro_kids(praw):
                                    ctx.violation('%s: mspr:pro does not name the %s track key id' % (url, ct), {'url': url})
                                if PR_SYS in init_pssh and pssh_fields(init_pssh[PR_SYS])[2] != praw:
                                    ctx.violation('%s: mspr:pro differs from the PRO inside the %s init segment pssh' % (url, ct), {'url': url})
                            elif which == 'playready' and 'pro' in want.get('playready', set()):
                                ctx.violation('%s: PlayReady ContentProtection lacks the mspr:pro its locations ask for' % url, {'url': url})
                            if which == 'marlin':
                                ids = [e.text for e in cp.iter() if e.tag.endswith('MarlinContentId')]
                                if ids != ['urn:marlin:kid:' + kid.hex()]:
                                    ctx.violation('%s: MarlinContentId %r, the %s track key id is %s' % (url, ids, ct, kid.hex()), {'url': url})
                        has = {'playready': any('9a04f079' in s for s in schemes),
                               'clearkey': any('1077efec' in s or 'e2719d58' in s for s in schemes),
                               'marlin': any('5e629af5' in s for s in schemes)}
                        for nme in ('playready', 'clearkey', 'marlin'):
                            if has[nme] != (nme in want):
                                ctx.violation('%s: ContentProtection for %s is %s in the %s set, the selection %s it' % (
                                    url, nme, 'present' if has[nme] else 'absent', ct, 'includes' if nme in want else 'excludes'), {'url': url})
                    if seen_ct:
                        ctx.nontriv(url)
                    ctx.dist('manifest-sets:%d' % len(seen_ct))


def run(ctx):
    import logging
    logging.disable(logging.CRITICAL)
    common.proof_step(ctx)
    ctx.trusted += ['SHA-256 (hashlib / pycryptodome) and AES-128-ECB are libraries: C11_content_key_* take SHA-256 as a parameter, the '
                    'equality with the published algorithm and the checksum are decided by the oracle',
                    'Jinja rendering of the WRMHEADER XML is executed, not modelled (the model takes the header bytes as input)']
    ctx.assumptions += ['16-byte key ids and keys; WRMHEADER shorter than 64 KiB']
    from ..appenv import AppEnv
    pure_suite(ctx)
    env = AppEnv(ctx.workdir, streams=('bbb',))
    logging.disable(logging.CRITICAL)
    pro_suite(ctx, env)
    clearkey_suite(ctx, env)
    manifest_suite(ctx, env)
    env.close()


def replay(ctx, payload):
    for v in payload.get('violations', []):
        print('replay:', v['what'])
    return 1 if payload.get('violations') else 0
