"""C18 - the bundled validator accepts what the server generates and flags corruptions.
Theorems: coq/Props/C18.v (per-segment decision predicates: no false positive on server-made segments,
detection of each segment-level corruption with its magnitude condition).  Correspondence: the REAL
DashValidator, driven through an in-process HTTP client that can rewrite one response, on pristine and
corrupted media segments; the facts of every validated segment are extracted from the very bytes it saw by
the independent walker (harness/boxwalk.py) and the model's error list is compared with the errors the
validator recorded for that segment.  Oracle: pristine sessions (template x mode x DRM x options, with
manifest refreshes) report no error and terminate; every catalogue corruption - segment and manifest level -
yields at least one error located at the corrupted element."""
import asyncio
import datetime
import logging
import re
import struct
from concurrent.futures import ThreadPoolExecutor

from .. import common, boxwalk

RULE = ('pristine: 9 templates x {vod, live} x drm {none, all, playready, clearkey} x {timeline, events, number / time addressing} x '
        'clocks, 0..2 manifest refreshes; corrupted: one response of a session rewritten - media segment tfdt by +-tolerance, '
        '+-(tolerance+1) and large, mfhd sequence number, trun data_offset, saio offset, senc removed, 404; init segment with a '
        'mandatory box retyped; manifest with a SegmentTimeline gap, a mandatory MPD attribute removed, availabilityStartTime changed '
        'on refresh. Non-trivial: a session in which >= 1 media segment was validated; distinct by URL + corruption')

CODES = ['EStatus', 'EMoof', 'EMdat', 'ETrunOffset', 'ETrunEnd', 'ESencMissing', 'ESaioMissing', 'ESaioCount', 'ESaioOffset',
         'ESencCount', 'ESencInClear', 'ESeq', 'EDecode', 'EDuration']


class Client:
    """async facade over the Flask test client; `rewrite(url, status, data, headers) -> (status, data) or None` may alter one response"""

    def __init__(self, app, rewrite=None):
        self.c = app.test_client()
        self.rewrite = rewrite
        self.seen = {}          # url -> (status, bytes the validator received)
        self.order = []
        self.pass_no = 0
        self.first_pass = {}
        self.manifests = []     # manifest documents in the order the validator received them

    class Resp:
        def __init__(self, status, data, headers, mimetype):
            self.status_code = status
            self.data = data
            self.headers = headers
            self.mimetype = mimetype

        def get_data(self, as_text=False):
            return self.data.decode('utf-8', 'replace') if as_text else self.data

        @property
        def text(self):
            return self.get_data(as_text=True)

        @property
        def xml(self):
            from lxml import etree as ET
            return ET.fromstring(self.data)

        @property
        def json(self):
            import json
            return json.loads(self.data)

    async def get(self, url, headers=None, params=None, status=None, xhr=False):
        r = self.c.get(url, headers=headers)
        st, data = r.status_code, r.get_data()
        if self.rewrite is not None:
            out = self.rewrite(url, st, data, r.headers)
            if out is not None:
                st, data = out
        self.seen[url] = (st, data)
        self.order.append(url)
        self.first_pass.setdefault(url, getattr(self, 'pass_no', 0))
        if url.split('?')[0].endswith('.mpd') and st == 200:
            self.manifests.append(data)
        return Client.Resp(st, data, r.headers, r.mimetype)

    async def head(self, url, headers=None, params=None, status=None, xhr=False):
        r = self.c.head(url, headers=headers)
        return Client.Resp(r.status_code, b'', r.headers, r.mimetype)


def media_segments(dv):
    out = []
    try:
        for p in dv.manifest.periods:
            for a in p.adaptation_sets:
                for r in a.representations:
                    for ms in getattr(r, 'media_segments', []) or []:
                        out.append((a, r, ms))
    except Exception:  # noqa
        pass
    return out


async def session(env, clock, url, mode, encrypted, rewrite=None, refreshes=0, duration=8, until_finished=0):
    """until_finished = N > 0: keep refreshing (advancing the clock by minimumUpdatePeriod) until dv.finished(), at most N times;
    the returned validator has .c18_finished set"""
    from dashlive.mpeg.dash.validator import DashValidator, ValidatorOptions, ConcurrentWorkerPool
    errors, segs = [], []
    with ThreadPoolExecutor(max_workers=2) as tpe:
        pool = ConcurrentWorkerPool(tpe)
        opts = ValidatorOptions(duration=duration, encrypted=encrypted, pool=pool)
        opts.log = logging.getLogger('c18')
        cl = Client(env.app, rewrite)
        dv = DashValidator(url=url, http_client=cl, mode=mode, options=opts)
        loaded = await dv.load()
        if not loaded:
            return None, cl, [], []
        with env.app.app_context():
            for mf in env.models.MediaFile.all():
                if mf.representation is not None:
                    dv.set_representation_info(mf.representation)
        await dv.validate()
        errors += list(dv.get_errors())
        segs += media_segments(dv)
        for i in range(refreshes):
            mup = dv.manifest.minimumUpdatePeriod
            step = mup.total_seconds() if mup is not None and mup.total_seconds() > 0 else 4
            clock.set(clock.now + datetime.timedelta(seconds=step))
            cl.pass_no = i + 1
            if not await dv.refresh():
                break
            await dv.validate()
            errors += list(dv.get_errors())
            segs += media_segments(dv)
        dv.c18_finished = True
        if until_finished:
            n = 0
            while not dv.finished() and n < until_finished:
                n += 1
                mup = dv.manifest.minimumUpdatePeriod
                step = mup.total_seconds() if mup is not None and mup.total_seconds() > 0 else 4
                clock.set(clock.now + datetime.timedelta(seconds=step))
                if not await dv.refresh():
                    break
                await dv.validate()
                errors += list(dv.get_errors())
                segs += media_segments(dv)
            dv.c18_finished = dv.finished()
            dv.c18_refreshes = n
        # what a caller holds when the session is over: the validator's current errors and its history
        final = list(dv.get_errors())
        for h in dv.get_validation_history():
            errors += list(h.errors)
            final += list(h.errors)
        dv.c18_final = list({(e.msg, tuple(e.location)): e for e in final}.values())
    uniq = {}
    for e in errors:
        uniq[(e.msg, tuple(e.location))] = e
    return dv, cl, list(uniq.values()), segs


def run_session(*a, **k):
    return asyncio.run(asyncio.wait_for(session(*a, **k), timeout=120))


# ------------------------------------------------------------------ byte-level corruptions of a media segment
def find_box(data, path):
    root = boxwalk.Root(data)
    return root.find(path)


def patch(data, pos, newbytes):
    return data[:pos] + newbytes + data[pos + len(newbytes):]


def corrupt_tfdt(data, delta):
    b = find_box(data, 'moof/traf/tfdt')
    v = b.payload[0]
    if v == 1:
        cur = struct.unpack('>Q', b.payload[4:12])[0]
        return patch(data, b.payload_start + 4, struct.pack('>Q', max(0, cur + delta)))
    cur = struct.unpack('>I', b.payload[4:8])[0]
    return patch(data, b.payload_start + 4, struct.pack('>I', max(0, cur + delta) & 0xffffffff))


def corrupt_seq(data, delta):
    b = find_box(data, 'moof/mfhd')
    cur = struct.unpack('>I', b.payload[4:8])[0]
    return patch(data, b.payload_start + 4, struct.pack('>I', (cur + delta) & 0xffffffff))


def corrupt_trun(data, delta):
    b = find_box(data, 'moof/traf/trun')
    flags = int.from_bytes(b.payload[1:4], 'big')
    if not flags & 1:
        return None
    cur = struct.unpack('>i', b.payload[8:12])[0]
    return patch(data, b.payload_start + 8, struct.pack('>i', cur + delta))


def corrupt_saio(data, delta):
    b = find_box(data, 'moof/traf/saio')
    if b is None:
        return None
    v, flags = b.payload[0], int.from_bytes(b.payload[1:4], 'big')
    pos = 4 + (8 if flags & 1 else 0) + 4
    if v == 0:
        cur = struct.unpack('>I', b.payload[pos:pos + 4])[0]
        return patch(data, b.payload_start + pos, struct.pack('>I', cur + delta))
    cur = struct.unpack('>Q', b.payload[pos:pos + 8])[0]
    return patch(data, b.payload_start + pos, struct.pack('>Q', cur + delta))


def retype(data, path, newtype):
    b = find_box(data, path)
    if b is None:
        return None
    return patch(data, b.start + 4, newtype)


# ------------------------------------------------------------------ facts for the model
def trex_default(cl, seg_url):
    """default sample duration from the init segment of the same representation, as the client saw it"""
    base = seg_url.split('?')[0]
    rep_dir = base.rsplit('/time/', 1)[0] if '/time/' in base else base.rsplit('/', 1)[0]
    for u, (st, data) in cl.seen.items():
        if u.split('?')[0].startswith(rep_dir + '/init.') and st == 200:
            try:
                return boxwalk.trex_default_duration(boxwalk.Root(data))
            except Exception:  # noqa
                return None
    return None


def facts(status, data, ms, encrypted_rep, timescale, default_duration=None):
    """the segfacts record of Model/ValidatorModel.v from the bytes the validator received (independent walker)"""
    opt = lambda v: [] if v is None else [int(v)]   # noqa
    f = {'status': status, 'moof': 0, 'mdat': 0, 'first': 0, 'pstart': 0, 'last': 0, 'mend': 0, 'enc': 1 if encrypted_rep else 0,
         'senc': 0, 'saio': 0, 'saio_n': 0, 'saio_t': 0, 'senc_first': 0, 'trun_n': 0, 'senc_n': 0, 'seq': 0, 'decode': 0, 'dur': 0}
    if status == 200:
        try:
            root = boxwalk.Root(data)
            moof, mdat = root.find('moof'), root.find('mdat')
            f['moof'], f['mdat'] = int(moof is not None), int(mdat is not None)
            if moof is not None and mdat is not None:
                traf = moof.find('traf')
                th, tr = boxwalk.tfhd_fields(traf), boxwalk.trun_fields(traf)
                base = th['base_data_offset'] if th['base_data_offset'] is not None else moof.start
                f['first'] = base + (tr['data_offset'] or 0)
                f['pstart'] = mdat.payload_start
                f['last'] = f['first'] + sum(boxwalk.sample_sizes(traf))
                f['mend'] = mdat.start + mdat.size
                se, so = boxwalk.senc_info(traf), boxwalk.saio_offsets(traf)
                f['senc'], f['saio'] = int(se is not None), int(so is not None)
                if so is not None:
                    f['saio_n'] = len(so)
                    f['saio_t'] = (so[0] + base) if so else 0
                if se is not None:
                    f['senc_first'] = se['first_entry_pos']
                    f['senc_n'] = se['count']
                f['trun_n'] = tr['count']
                f['seq'] = boxwalk.mfhd_seq(moof)
                f['decode'] = boxwalk.tfdt_time(traf) or 0
                dd = th['default_sample_duration'] if th['default_sample_duration'] is not None else default_duration
                f['dur'] = sum(s.get('duration', dd or 0) for s in tr['samples'])
        except Exception:  # noqa
            pass
    return [f['status'], f['moof'], f['mdat'], f['first'], f['pstart'], f['last'], f['mend'], f['enc'], f['senc'], f['saio'], f['saio_n'],
            f['saio_t'], f['senc_first'], f['trun_n'], f['senc_n'], f['seq'], opt(ms.expected_seg_num), f['decode'],
            opt(ms.expected_decode_time), int(ms.tolerance), f['dur'], opt(ms.expected_duration), int(timescale)]


def classify(msg):
    """validator message -> model error code (None: a check outside the segment model)"""
    table = [('Missing segment', 'EStatus'), ('Incorrect HTTP status', 'EStatus'), ('Failed to find MOOF', 'EMoof'), ('MOOF box missing', 'EMoof'),
             ('MDAT box missing', 'EMdat'), ('trun.data_offset must point inside', 'ETrun'), ('must contain a senc', 'ESencMissing'),
             ('saio box is required', 'ESaioMissing'), ('only have one offset', 'ESaioCount'), ('saio.offsets[0] should point', 'ESaioOffset'),
             ('senc box should not be found', 'ESencInClear'), ('Sequence number error', 'ESeq'), ('!~=', 'EAlmost'),
             ('Decode time', 'EAlmost'), ('Expected duration', 'EAlmost')]
    for key, code in table:
        if key in msg:
            return code
    return None


def seg_errors_of(errors, ms):
    prefix = ms.name
    out = []
    for e in errors:
        if prefix in e.msg:
            out.append(e)
    return out


MCODES = ['MNoPeriod', 'MMinBuf', 'MType', 'MAst', 'MTsbd', 'MMpdInLive', 'MMpdInvalid', 'MPeriodDur', 'MMupInVod', 'MAstInVod', 'MPatchInVod',
          'MAstChanged']


def classify_manifest(msg):
    table = [('does not have a Period', 'MNoPeriod'), ('minBufferTime must be present', 'MMinBuf'), ('MPD@type must be', 'MType'),
             ('availabilityStartTime must be present', 'MAst'), ('timeShiftBufferDepth must be present', 'MTsbd'),
             ('mediaPresentationDuration must not be present', 'MMpdInLive'), ('Invalid MPD@mediaPresentationDuration', 'MMpdInvalid'),
             ('Period@duration must be present', 'MPeriodDur'), ('minimumUpdatePeriod must not be present', 'MMupInVod'),
             ('availabilityStartTime must not be present', 'MAstInVod'), ('PatchLocation elements should only', 'MPatchInVod'),
             ('availabilityStartTime has changed', 'MAstChanged')]
    for key, code in table:
        if key in msg:
            return code
    return None


def manifest_facts(mode, docs):
    """the mfacts record from the manifest documents the validator received (the last one, and the one before it)"""
    from lxml import etree
    from ..manifesthttp import parse_duration_us, parse_datetime, us_since_epoch

    def ast_of(data):
        try:
            v = etree.fromstring(data).get('availabilityStartTime')
            return None if v is None else us_since_epoch(parse_datetime(v))
        except Exception:  # noqa
            return None
    root = etree.fromstring(docs[-1])
    ns = '{urn:mpeg:dash:schema:mpd:2011}'
    periods = [p for p in root if p.tag == ns + 'Period']
    mpd = root.get('mediaPresentationDuration')
    opt = lambda v: [] if v is None else [int(v)]   # noqa
    prev = ast_of(docs[-2]) if len(docs) > 1 else None
    return [-1, 1 if mode == 'live' else 0, 1 if root.get('type') == 'dynamic' else 0, len(periods), int(root.get('minBufferTime') is not None),
            int(root.get('availabilityStartTime') is not None), int(root.get('timeShiftBufferDepth') is not None),
            int(root.get('minimumUpdatePeriod') is not None), opt(None if mpd is None else parse_duration_us(mpd)),
            int(all(p.get('duration') is not None for p in periods)), len([e for e in root if e.tag == ns + 'PatchLocation']),
            opt(prev), opt(ast_of(docs[-1]))]


# ------------------------------------------------------------------ suites
MREQS, MMETA = [], []


def configs(ctx):
    templates = ['hand_made.mpd', 'manifest_e.mpd', 'manifest_a.mpd', 'manifest_b.mpd', 'manifest_ef.mpd', 'manifest_h.mpd', 'manifest_i.mpd',
                 'manifest_n.mpd', 'manifest_vod_aiv.mpd']
    out = []
    for t in templates:
        for mode in ('vod', 'live'):
            for drm in ('', 'all', 'playready', 'clearkey'):
                for extra in ('', 'timeline=1', 'events=ping&ping__inband=1', 'timeline=1&events=scte35', 'abr=0', 'time=xsd'):
                    out.append((t, mode, drm, extra))
    out += [('mps:hand_made.mpd', 'vod', '', ''), ('mps:manifest_e.mpd', 'vod', 'all', '')]
    if ctx.quick():
        must = [c for c in out if c[0] in ('hand_made.mpd', 'manifest_e.mpd') and c[3] in ('', 'timeline=1') and c[2] in ('', 'all')]
        must += [c for c in out if c[0].startswith('mps:')]
        rest = [c for c in out if c not in must]
        return must + ctx.rng.sample(rest, 10)
    return out


def url_of(cfg):
    t, mode, drm, extra = cfg
    if t.startswith('mps:'):
        q = [x for x in (('drm=' + drm) if drm else '', extra) if x]
        return 'http://localhost/mps/%s/mps1/%s%s' % (mode, t[4:], ('?' + '&'.join(q)) if q else '')
    q = [x for x in (('drm=' + drm) if drm else '', extra, 'start=2024-03-05T11:00:00Z' if mode == 'live' else '') if x]
    return 'http://localhost/dash/%s/bbb/%s%s' % (mode, t, ('?' + '&'.join(q)) if q else '')


TREQS, TMETA = [], []


def tolerance_facts(ctx, url, cl, dv):
    """the tolerance each MediaSegment was given, against ValidatorModel.tol_template / tol_timeline evaluated on the
    attributes of the manifest document the validator received (read here with lxml, not through the validator)"""
    from lxml import etree
    if not cl.manifests:
        return
    try:
        doc = etree.fromstring(cl.manifests[-1])
    except Exception:  # noqa
        return
    ns = {'d': 'urn:mpeg:dash:schema:mpd:2011'}
    by_id = {}
    for pe in doc.findall('d:Period', ns):
        for ae in pe.findall('d:AdaptationSet', ns):
            for re_ in ae.findall('d:Representation', ns):
                by_id[(pe.get('id'), re_.get('id'))] = (ae, re_)
    try:
        periods = list(dv.manifest.periods)
    except Exception:  # noqa
        return
    for p in periods:
        for a in p.adaptation_sets:
            for r in a.representations:
                mss = list(getattr(r, 'media_segments', []) or [])
                pair = by_id.get((p.id, r.id))
                if not mss or pair is None:
                    continue
                ae, re_ = pair
                fr = re_.get('frameRate') or ae.get('maxFrameRate') or ae.get('minFrameRate') or '24'
                num, _, den = fr.partition('/')
                num, den = int(num), int(den or 1)
                tmpl = re_.find('d:SegmentTemplate', ns)
                if tmpl is None:
                    tmpl = ae.find('d:SegmentTemplate', ns)
                if tmpl is None or num <= 0 or den <= 0:
                    continue
                timeline = tmpl.find('d:SegmentTimeline', ns) is not None
                ts = int(tmpl.get('timescale', '1'))
                ctype = ae.get('contentType') or ''      # the validator looks at AdaptationSet@contentType only (not at mimeType)
                audio = 1 if ctype == 'audio' else 0
                for idx, ms in list(enumerate(mss))[:4]:
                    TREQS.append([-2, 1 if timeline else 0, ts, num, den, idx, audio])
                    TMETA.append(({'session': url, 'period': p.id, 'representation': r.id, 'index': idx, 'frameRate': fr,
                                   'timescale': ts, 'timeline': timeline, 'audio': bool(audio)}, int(ms.tolerance)))
                    ctx.dist('tolerance:%s:%s' % ('timeline' if timeline else 'template', 'audio' if audio else ctype or 'other'))


def pristine_suite(ctx, env):
    from ..appenv import Clock, utc
    reqs, meta = [], []
    for cfg in configs(ctx):
        url = url_of(cfg)
        clock = Clock(utc(2024, 3, 5, 12, 0, 7))
        with clock:
            r0 = env.client().get(url.replace('http://localhost', ''))
            if r0.status_code != 200:
                ctx.dist('pristine:manifest-%d' % r0.status_code)
                continue
            try:
                dv, cl, errors, segs = run_session(env, clock, url, cfg[1], bool(cfg[2]), refreshes=(1 if cfg[1] == 'live' else 0))
            except asyncio.TimeoutError:
                ctx.violation('the validator did not terminate within 120 s on %s' % url, {'url': url})
                continue
            except Exception as e:  # noqa
                ctx.violation('the validator raised %s on %s: %s' % (type(e).__name__, url, str(e)[:100]), {'url': url})
                continue
        ctx.count('validator:pristine-session')
        if dv is None:
            ctx.violation('the validator could not load %s' % url, {'url': url})
            continue
        for e in errors[:3]:
            ctx.violation('pristine %s: the validator reports "%s" (lines %s)' % (url, e.msg[:160], tuple(e.location)), {'url': url},
                          key=None)
        if cl.manifests:
            try:
                MREQS.append(manifest_facts(cfg[1], cl.manifests))
                MMETA.append(({'session': url, 'refreshes': len(cl.manifests) - 1}, sorted({classify_manifest(e.msg) for e in errors} - {None})))
            except Exception:  # noqa
                pass
        validated = [(a, r, ms) for a, r, ms in segs if getattr(ms, 'validated', False) and ms.url in cl.seen]
        tolerance_facts(ctx, url, cl, dv)
        if validated:
            ctx.nontriv(('pristine', url))
        ctx.dist('pristine:segments-validated:%d' % min(len(validated) // 5 * 5, 50))
        for a, r, ms in validated[:12]:
            st, data = cl.seen[ms.url]
            enc = bool(r.init_segment.dash_representation.encrypted) if getattr(r.init_segment, 'dash_representation', None) else bool(cfg[2])
            reqs.append(facts(st, data, ms, enc, r.dash_timescale(), trex_default(cl, ms.url)))
            got = sorted({classify(e.msg) for e in seg_errors_of(errors, ms)} - {None})
            meta.append(({'url': ms.url, 'session': url}, got))
    return reqs, meta


CATALOGUE = [
    ('tfdt+tolerance', lambda d, tol: corrupt_tfdt(d, tol), None),
    ('tfdt+tolerance+1', lambda d, tol: corrupt_tfdt(d, tol + 1), 'EAlmost'),
    ('tfdt-tolerance-1', lambda d, tol: corrupt_tfdt(d, -(tol + 1)), 'EAlmost'),
    ('tfdt+large', lambda d, tol: corrupt_tfdt(d, 100000), 'EAlmost'),
    ('sequence+1', lambda d, tol: corrupt_seq(d, 1), 'ESeq'),
    ('trun.data_offset+8', lambda d, tol: corrupt_trun(d, 8), 'ETrun'),
    ('trun.data_offset-4', lambda d, tol: corrupt_trun(d, -4), 'ETrun'),
    ('saio+4', lambda d, tol: corrupt_saio(d, 4), 'ESaioOffset'),
    ('senc removed', lambda d, tol: retype(d, 'moof/traf/senc', b'free'), 'ESencMissing'),
    ('404', None, 'EStatus'),
]


def corruption_suite(ctx, env):
    """segment-level catalogue: one media segment response of a session is rewritten"""
    from ..appenv import Clock, utc
    rng = ctx.rng
    reqs, meta = [], []
    sessions = [('hand_made.mpd', 'vod', '', 'timeline=1'), ('hand_made.mpd', 'vod', 'all', 'timeline=1'), ('hand_made.mpd', 'live', '', 'timeline=1'),
                ('manifest_e.mpd', 'vod', '', ''), ('hand_made.mpd', 'vod', 'all', ''), ('manifest_n.mpd', 'live', 'all', '')]
    if ctx.quick():
        sessions = sessions[:3] + [sessions[4]]
    for cfg in sessions:
        url = url_of(cfg)
        clock = Clock(utc(2024, 3, 5, 12, 0, 7))
        with clock:
            dv0, cl0, errors0, segs0 = run_session(env, clock, url, cfg[1], bool(cfg[2]))
        if dv0 is None:
            continue
        candidates = [(a, r, ms) for a, r, ms in segs0 if getattr(ms, 'validated', False) and cl0.seen.get(ms.url, (0,))[0] == 200]
        if not candidates:
            ctx.dist('corruption:no-validated-segment')
            continue
        for name, fn, expect in CATALOGUE:
            pool = [c for c in candidates if (name.startswith('tfdt') and c[2].expected_decode_time is not None) or
                    (name.startswith('sequence') and c[2].expected_seg_num is not None) or
                    (name.startswith('sa') or name.startswith('senc')) and 'enc' in c[2].url or
                    not (name.startswith('tfdt') or name.startswith('sa') or name.startswith('senc') or name.startswith('sequence'))]
            if not pool:
                continue
            a, r, target = rng.choice(pool)
            turl = target.url
            tol = int(target.tolerance)

            def rewrite(u, st, data, headers, turl=turl, fn=fn, tol=tol):
                if u != turl:
                    return None
                if fn is None:
                    return 404, b'Not Found'
                try:
                    out = fn(data, tol)
                except Exception:  # noqa
                    return None
                return (st, out) if out is not None else None
            clock = Clock(utc(2024, 3, 5, 12, 0, 7))
            with clock:
                try:
                    dv, cl, errors, segs = run_session(env, clock, url, cfg[1], bool(cfg[2]), rewrite=rewrite)
                except Exception as e:  # noqa
                    ctx.violation('the validator raised %s on %s with %s corrupted (%s)' % (type(e).__name__, url, turl, name), {'url': url, 'corruption': name})
                    continue
            ctx.count('validator:corrupted-session')
            if turl not in cl.seen or cl.seen[turl] == cl0.seen.get(turl):
                ctx.dist('corruption:not-applied:%s' % name)
                continue
            mine = [(aa, rr, ms) for aa, rr, ms in segs if ms.url == turl]
            got_errors = seg_errors_of(errors, mine[0][2]) if mine else []
            got = sorted({classify(e.msg) for e in got_errors} - {None})
            inp = {'session': url, 'segment': turl, 'corruption': name, 'tolerance': tol}
            if expect is None:
                if got:
                    ctx.violation('%s within the tolerance (%d) is reported: %s' % (name, tol, got), inp)
            else:
                if not errors:
                    ctx.violation('%s of %s: the validator reports no error at all' % (name, turl), inp)
                elif expect not in got and not (expect == 'ETrun' and 'ETrun' in got):
                    ctx.violation('%s of %s: no error of kind %s located at that segment (the validator reports %s)'
                                  % (name, turl, expect, [e.msg[:80] for e in errors[:3]]), inp)
                else:
                    ctx.nontriv(('corruption', url, name))
            if mine:
                st, data = cl.seen[turl]
                enc = 'enc' in turl
                reqs.append(facts(st, data, mine[0][2], enc, mine[0][1].dash_timescale(), trex_default(cl, turl)))
                meta.append((inp, got))
    # ---- a segment first fetched AFTER a refresh is corrupted (what the validator carries from one pass to the next - the
    # expected sequence number with a $Time$ template, the expected decode time with a $Number$ template - must still apply);
    # judged on the report at the end of the session
    for cfg, cname, fn, expect in ((('hand_made.mpd', 'live', '', 'depth=20&timeline=1'), 'sequence_number+7 after a refresh', lambda d, tol: corrupt_seq(d, 7), 'ESeq'),
                                   (('hand_made.mpd', 'live', '', 'depth=20'), 'tfdt+10*tolerance after a refresh', lambda d, tol: corrupt_tfdt(d, 10 * tol + 10), 'EAlmost')):
        url = url_of(cfg)
        clock = Clock(utc(2024, 3, 5, 12, 0, 7))
        with clock:
            dv0, cl0, errors0, segs0 = run_session(env, clock, url, cfg[1], False, refreshes=3, duration=40)
        if dv0 is None:
            continue
        later = [u for u in cl0.order if cl0.first_pass.get(u, 0) >= 1 and '/bbb_v' in u and '/init.' not in u and not u.split('?')[0].endswith('.mpd')
                 and cl0.seen[u][0] == 200]
        if not later:
            ctx.dist('corruption:no-segment-after-refresh')
            continue
        turl = later[0]
        tol_ms = [ms for a, r, ms in segs0 if ms.url == turl]
        tol = int(tol_ms[0].tolerance) if tol_ms else 1000

        def rewrite2(u, st, data, headers, turl=turl, fn=fn, tol=tol):
            if u != turl:
                return None
            try:
                out = fn(data, tol)
            except Exception:  # noqa
                return None
            return (st, out) if out is not None else None
        clock = Clock(utc(2024, 3, 5, 12, 0, 7))
        with clock:
            try:
                dv, cl, errors, segs = run_session(env, clock, url, cfg[1], False, rewrite=rewrite2, refreshes=3, duration=40)
            except Exception as e:  # noqa
                ctx.violation('the validator raised %s on %s with %s corrupted (%s)' % (type(e).__name__, url, turl, cname), {'url': url, 'corruption': cname})
                continue
        ctx.count('validator:corrupted-session')
        inp = {'session': url, 'segment': turl, 'corruption': cname, 'first_fetched_in_pass': cl0.first_pass.get(turl)}
        if turl not in cl.seen or cl.seen[turl] == cl0.seen.get(turl):
            ctx.dist('corruption:not-applied:%s' % cname)
            continue
        mine = [ms for aa, rr, ms in segs if ms.url == turl]
        final = getattr(dv, 'c18_final', errors)
        got = sorted({classify(e.msg) for e in (seg_errors_of(final, mine[0]) if mine else [])} - {None})
        if expect not in got:
            ctx.violation('%s (%s): the report at the end of the session has no %s error located at that segment (it lists %s)'
                          % (cname, turl, expect, [e.msg[:80] for e in final[:3]]), inp)
        else:
            ctx.nontriv(('corruption-after-refresh', url, cname))
    return reqs, meta


def manifest_corruptions(ctx, env):
    """manifest-level and init-segment catalogue: detection by the real validator (oracle only)"""
    from ..appenv import Clock, utc

    def drop_attr(name):
        def f(u, st, data, headers):
            if u.split('?')[0].endswith('.mpd') and st == 200:
                out, n = re.subn((r'\s%s="[^"]*"' % name).encode(), b'', data, count=1)
                return (st, out) if n else None
            return None
        return f

    def timeline_gap(u, st, data, headers):
        """the first run of segments is split after its first segment and the rest moved 4040 ticks later"""
        if u.split('?')[0].endswith('.mpd') and st == 200:
            m = re.search(rb'<S d="(\d+)" r="(\d+)" t="(\d+)"\s*/>', data)
            if not m:
                return None
            d, r, t = int(m.group(1)), int(m.group(2)), int(m.group(3))
            new = b'<S d="%d" t="%d"/><S d="%d" r="%d" t="%d"/>' % (d, t, d, max(r - 1, 0), t + d + 4040)
            return st, data[:m.start()] + new + data[m.end():]
        return None

    state = {'n': 0}

    def ast_change(u, st, data, headers):
        if u.split('?')[0].endswith('.mpd') and st == 200:
            state['n'] += 1
            if state['n'] >= 2:
                return st, re.sub(rb'availabilityStartTime="(\d{4})-', lambda m: b'availabilityStartTime="' + str(int(m.group(1)) - 1).encode() + b'-', data, count=1)
        return None

    def ast_change_once(u, st, data, headers):
        # only the second manifest of the session is altered: the error must survive the refreshes that follow
        if u.split('?')[0].endswith('.mpd') and st == 200:
            state['n'] += 1
            if state['n'] == 2:
                return st, re.sub(rb'availabilityStartTime="(\d{4})-', lambda m: b'availabilityStartTime="' + str(int(m.group(1)) - 1).encode() + b'-', data, count=1)
        return None

    def init_retype(box):
        def f(u, st, data, headers):
            if '/init.' in u and st == 200:
                out = retype(data, box, b'free')
                return (st, out) if out is not None else None
            return None
        return f

    cases = [('MPD@availabilityStartTime removed', 'live', 'timeline=1', drop_attr('availabilityStartTime'), 0, 'availabilityStartTime'),
             ('MPD@minBufferTime removed', 'vod', '', drop_attr('minBufferTime'), 0, 'minBufferTime'),
             ('MPD@mediaPresentationDuration removed', 'vod', '', drop_attr('mediaPresentationDuration'), 0, 'uration'),
             ('SegmentTimeline gap', 'vod', 'timeline=1', timeline_gap, 0, ''),
             ('availabilityStartTime changed across a refresh', 'live', 'timeline=1', ast_change, 1, 'availabilityStartTime has changed'),
             ('mid-session: availabilityStartTime changed in the second of five manifests', 'live', 'timeline=1', ast_change_once, 4,
              'availabilityStartTime has changed'),
             ('init segment: moov/mvex retyped', 'vod', '', init_retype('moov/mvex'), 0, ''),
             ('init segment: moov retyped', 'vod', '', init_retype('moov'), 0, '')]
    for name, mode, extra, fn, refreshes, needle in cases:
        url = url_of(('hand_made.mpd', mode, '', extra))
        state['n'] = 0
        clock = Clock(utc(2024, 3, 5, 12, 0, 7))
        with clock:
            try:
                dv, cl, errors, segs = run_session(env, clock, url, mode, False, rewrite=fn, refreshes=refreshes)
            except asyncio.TimeoutError:
                ctx.violation('the validator did not terminate within 120 s on %s with: %s' % (url, name), {'url': url, 'corruption': name})
                continue
            except Exception as e:  # noqa
                # an exception is a report of a kind, but not one located at an element
                ctx.violation('%s: the validator raised %s instead of reporting an error: %s' % (name, type(e).__name__, str(e)[:100]),
                              {'url': url, 'corruption': name}, key='validator-raises:%s' % name.split(':')[0])
                continue
        ctx.count('validator:manifest-corruption')
        inp = {'url': url, 'corruption': name}
        if dv is not None and cl.manifests and not name.startswith('init') and not name.startswith('SegmentTimeline') and not name.startswith('mid-session'):
            try:
                MREQS.append(manifest_facts(mode, cl.manifests))
                MMETA.append((dict(inp), sorted({classify_manifest(e.msg) for e in errors} - {None})))
            except Exception:  # noqa
                pass
        if dv is None:
            ctx.nontriv(('manifest-corruption', name))          # refusing to load the document is a report
            continue
        final = getattr(dv, 'c18_final', errors)      # the report at the END of the session (current errors + history)
        if not final:
            ctx.violation('%s: the validator reports no error%s' % (name, ' at the end of the session (it did while it ran)' if errors else ''),
                          inp, key='undetected:%s' % name)
        elif needle and not any(needle in e.msg for e in final):
            ctx.violation('%s: no error of the final report mentions the corrupted item (reported: %s)' % (name, [e.msg[:80] for e in final[:3]]),
                          inp, key='mislocated:%s' % name)
        else:
            ctx.nontriv(('manifest-corruption', name))


def finishing_suite(ctx, env):
    """the driving loop of docs/validate.md: validate, then refresh until finished(); it must finish (bounded number of refreshes:
    requested duration / minimumUpdatePeriod plus slack) and report nothing on pristine output"""
    from ..appenv import Clock, utc
    cases = [('hand_made.mpd', 'live', '', 'depth=16', 30), ('hand_made.mpd', 'live', '', 'depth=20&timeline=1', 44),
             ('manifest_e.mpd', 'live', '', 'depth=30', 20), ('hand_made.mpd', 'live', 'all', 'depth=16&timeline=1', 24),
             ('hand_made.mpd', 'vod', '', '', 30), ('manifest_a.mpd', 'live', '', 'depth=12', 20)]
    if ctx.quick():
        cases = cases[:3]
    for t, mode, drm, extra, duration in cases:
        url = url_of((t, mode, drm, extra))
        clock = Clock(utc(2024, 3, 5, 12, 0, 7))
        bound = 40
        with clock:
            try:
                dv, cl, errors, segs = asyncio.run(asyncio.wait_for(
                    session(env, clock, url, mode, bool(drm), duration=duration, until_finished=bound), timeout=300))
            except asyncio.TimeoutError:
                ctx.violation('the validator session on %s (duration %d s) did not end within 300 s' % (url, duration), {'url': url, 'duration': duration})
                continue
            except Exception as e:  # noqa
                ctx.violation('the validator raised %s on %s (duration %d s): %s' % (type(e).__name__, url, duration, str(e)[:100]),
                              {'url': url, 'duration': duration})
                continue
        ctx.count('validator:finishing-session')
        inp = {'url': url, 'duration': duration}
        if dv is None:
            ctx.violation('the validator could not load %s' % url, inp)
            continue
        if not dv.c18_finished:
            # known class: a $Number$ representation whose segment is longer than half the time-shift buffer never gets a
            # segment inside the validator's own availability window
            starved = []
            try:
                tsbd = dv.manifest.timeShiftBufferDepth.total_seconds()
                for p_ in dv.manifest.periods:
                    for a_ in p_.adaptation_sets:
                        for r_ in a_.representations:
                            st_ = r_.segmentTemplate
                            if st_ is not None and st_.segmentTimeline is None and st_.duration and 2.0 * st_.duration / st_.timescale > tsbd \
                                    and not r_.media_segments:
                                starved.append(r_.id)
            except Exception:  # noqa
                pass
            ctx.violation('pristine %s, requested duration %d s: the validator is still not finished after %d refreshes (%d requests)%s'
                          % (url, duration, bound, len(cl.order), '; representations without any segment to validate: %s' % starved if starved else ''),
                          inp, key='never-finishes:long-segments' if starved else None)
        for e in errors[:2]:
            ctx.violation('pristine %s over %d refreshes: the validator reports "%s"' % (url, getattr(dv, 'c18_refreshes', 0), e.msg[:160]), inp)
        if dv.c18_finished and not errors:
            ctx.nontriv(('finishing', url, duration))


def run(ctx):
    logging.disable(logging.CRITICAL)
    common.proof_step(ctx)
    ctx.trusted += ['the validator\'s traversal (which segments it generates and fetches), its asyncio pool and XML loading are executed, not '
                    'modelled; the model covers the per-segment decision predicates',
                    'harness/shims used to run the real Flask app; the clock is patched and advanced by the harness between refreshes']
    ctx.assumptions += ['a decode-time error within the tolerance is not detected (C18_decode_time_tolerance): the catalogue entry "wrong decode '
                        'time" is claimed for errors beyond the tolerance only']
    from ..appenv import AppEnv
    env = AppEnv(ctx.workdir, streams=('bbb',))
    logging.disable(logging.CRITICAL)
    env.add_mps('mps1', [dict(pid='p1', stream='bbb', start_s=0, duration_s=20), dict(pid='p2', stream='bbb', start_s=8, duration_s=16)])
    del MREQS[:], MMETA[:], TREQS[:], TMETA[:]
    reqs1, meta1 = pristine_suite(ctx, env)
    reqs2, meta2 = corruption_suite(ctx, env)
    manifest_corruptions(ctx, env)
    finishing_suite(ctx, env)
    res = common.run_model_parallel(18, reqs1 + reqs2)
    ok = True
    for (inp, got), m in zip(meta1 + meta2, res):
        ctx.count('corr:segment-verdict')
        want = sorted({('ETrun' if CODES[i] in ('ETrunOffset', 'ETrunEnd') else 'EAlmost' if CODES[i] in ('EDecode', 'EDuration') else CODES[i])
                       for i in m})
        if want != got:
            ok = False
            ctx.disagree('segment verdict', inp, want, got)
    ctx.oblige('correspondence:DashValidator(media segment)-vs-ValidatorModel.seg_errors', ok)
    res = common.run_model_parallel(18, MREQS)
    ok = True
    for (inp, got), m in zip(MMETA, res):
        ctx.count('corr:manifest-verdict')
        want = sorted({MCODES[i] for i in m})
        if want != got:
            ok = False
            ctx.disagree('manifest verdict', inp, want, got)
    ctx.oblige('correspondence:DashValidator(manifest checks)-vs-ValidatorModel.manifest_errors', ok)
    res = common.run_model_parallel(18, TREQS)
    ok = True
    for (inp, got), want in zip(TMETA, res):
        ctx.count('corr:tolerance')
        if want != got:
            ok = False
            ctx.disagree('decode-time tolerance', inp, want, got)
    ctx.oblige('correspondence:Representation.generate_segments*(tolerance)-vs-ValidatorModel.tol_*', ok and bool(TREQS))
    env.close()


def replay(ctx, payload):
    for v in payload.get('violations', []):
        print('replay:', v['what'])
    return 1 if payload.get('violations') else 0
