"""C10 - init segments carry exactly the requested protection data, nothing else changes.
Theorems: coq/Props/C10.v.  Correspondence (HTTP): the init-segment responses of the real app for
every fixture representation x mode x DRM selection, byte for byte against Model/BoxModel.rewrite_init
applied to the stored init segment and the pssh boxes found in the response.  Oracle (independent
walker): which pssh boxes must be there (SystemID per selected system whose locations include
moov, the track's KID inside), nothing else differs."""
import itertools
import struct
import uuid

from .. import common, boxwalk

RULE = ('representations bbb_v7, bbb_a1, bbb_t1 (clear) and bbb_v7_enc, bbb_a1_enc (encrypted) x mode {vod, live} x drm in '
        '{absent, none, all, every non-empty subset of {playready, clearkey, marlin} x location subsets of {pro, cenc, moov}} x '
        'playready__version; single-period and multi-period init routes. Non-trivial: a response that carries >= 1 pssh; '
        'distinct by URL')

SYSTEM_IDS = {
    'playready': uuid.UUID('9a04f079-9840-4286-ab92-e65be0885f95').bytes,
    'clearkey': {uuid.UUID('1077efec-c0b2-4d02-ace3-3c1e52e2fb4b').bytes, uuid.UUID('e2719d58-a985-b3c9-781a-b030af78d30e').bytes},
}
EXT = {'v': 'm4v', 'a': 'm4a', 't': 'mp4'}


def selections(rng, quick):
    out = [None, 'none', 'all', 'playready', 'clearkey', 'marlin', 'playready,clearkey', 'playready-moov', 'playready-cenc',
           'playready-pro', 'clearkey-moov', 'clearkey-cenc', 'playready-pro-cenc', 'playready-moov,clearkey-cenc',
           'marlin-moov', 'playready-cenc-moov,marlin', 'all-moov', 'all-cenc',
           # a system with locations before one without (the bare one uses all locations) and the reverse
           'clearkey-cenc,playready', 'playready-cenc-pro,clearkey', 'marlin-cenc,clearkey,playready-pro', 'clearkey,playready-cenc']
    if not quick:
        systems, locs = ['playready', 'clearkey', 'marlin'], ['pro', 'cenc', 'moov']
        for k in range(1, 4):
            for combo in itertools.permutations(systems, k):
                for _ in range(3):
                    out.append(','.join(s + ''.join('-' + l for l in rng.sample(locs, rng.randint(0, 3))) for s in combo))
    return list(dict.fromkeys(out))


def expected_systems(sel):
    """systems that must put a pssh into moov for this drm= value (PlayReady and ClearKey define
    init-segment data, Marlin none); a system listed without locations uses all of them"""
    if sel in (None, 'none', ''):
        return set()
    exp = set()
    for item in sel.split(','):
        parts = item.split('-')
        name, locs = parts[0], set(parts[1:])
        names = ['playready', 'clearkey', 'marlin'] if name == 'all' else [name]
        for n in names:
            if n in ('playready', 'clearkey') and (not locs or 'moov' in locs):
                exp.add(n)
    return exp


def to_tree(boxes):
    return [[1, list(b.type), to_tree(b.children)] if b.children or b.type in boxwalk.CONTAINERS
            else [0, list(b.type), list(b.payload)] for b in boxes]


def run(ctx):
    import logging
    common.proof_step(ctx)
    ctx.trusted += ['harness/shims used to run the real Flask app; the pssh boxes fed to the model are the ones found at the end of moov '
                    'in the response (their content is judged by the oracle and by C11, not by the model)']
    ctx.assumptions += ['32-bit box sizes; container table as in mp4.py']
    from ..appenv import AppEnv, Clock, utc
    env = AppEnv(ctx.workdir, streams=('bbb',))
    logging.disable(logging.CRITICAL)
    env.add_mps('mpsinit', [dict(pid='a', stream='bbb', start_s=0, duration_s=20)])
    with env.app.app_context():
        ppk = env.models.MultiPeriodStream.get(name='mpsinit').periods[0].pk
    c = env.client()
    rng = ctx.rng
    names = ['bbb_v7', 'bbb_v7_enc', 'bbb_a1_enc', 'bbb_t1', 'bbb_a1']
    stored = {}
    kids = {}
    with env.app.app_context():
        for n in names:
            mf = env.models.MediaFile.get(name=n)
            seg = mf.representation.segments[0]
            data = open('/repo/tests/fixtures/bbb/%s.mp4' % n, 'rb').read()[seg.pos:seg.pos + seg.size]
            stored[n] = data
            kids[n] = mf.representation.default_kid if mf.representation.encrypted else None
    reqs, meta = [], []
    with Clock(utc(2024, 3, 5, 12, 0, 7)):
        for n in names:
            ext = EXT[n.split('_')[1][0]]
            # every mode is visited again after the other one: an answer must not depend on what the process served before
            for mode in ('vod', 'live', 'vod'):
                sels = selections(rng, ctx.quick())
                if ctx.quick() and not n.endswith('_enc'):
                    sels = sels[:4]
                for sel in sels:
                    for route in (['single'] if (ctx.quick() and sel not in (None, 'all')) else ['single', 'mps']):
                        q = [] if sel is None else ['drm=' + sel]
                        if sel and 'playready' in sel and rng.random() < 0.3:
                            q.append('playready__version=%s' % rng.choice(['1.0', '2.0', '3.0', '4.0']))
                        base = '/dash/%s/bbb/%s/init.%s' % (mode, n, ext) if route == 'single' else \
                               '/mps/%s/mpsinit/%d/%s/init.%s' % (mode, ppk, n, ext)
                        url = base + ('?' + '&'.join(q) if q else '')
                        r = c.get(url)
                        ctx.count('http:init-' + route)
                        enc = n.endswith('_enc')
                        inp = {'url': url}
                        if r.status_code != 200:
                            if enc and sel in (None, 'none'):
                                ctx.dist('encrypted-without-drm:%d' % r.status_code)     # refused by design (404)
                                if r.status_code >= 500:
                                    ctx.violation('%s answers %d' % (url, r.status_code), inp)
                                continue
                            ctx.violation('%s answers %d' % (url, r.status_code), inp)
                            continue
                        # ---------- oracle on the response bytes
                        try:
                            got = boxwalk.parse(r.data)
                        except ValueError as e:
                            ctx.violation('%s: response is not a well-formed box stream: %s' % (url, e), inp)
                            continue
                        src = boxwalk.parse(stored[n])
                        if [b.type for b in got] != [b.type for b in src]:
                            ctx.violation('%s: top-level boxes %r, stored %r' % (url, [b.type for b in got], [b.type for b in src]), inp)
                            continue
                        psshs = []
                        for gb, sb in zip(got, src):
                            if gb.type != b'moov':
                                if gb.raw != sb.raw:
                                    ctx.violation('%s: box %r differs from the stored bytes' % (url, gb.type), inp)
                                continue
                            sk = [x.raw for x in sb.children]
                            gk = [x.raw for x in gb.children]
                            if mode == 'live':
                                # live: the mehd box is gone - a direct child of moov, and the one inside moov/mvex (the size of
                                # mvex shrinks by it, nothing else changes)
                                def without_mehd(x):
                                    if x.type != b'mvex':
                                        return x.raw
                                    body = b''.join(k.raw for k in x.children if k.type != b'mehd')
                                    return struct.pack('>I4s', 8 + len(body), b'mvex') + body
                                sk_live = [without_mehd(x) for x in sb.children if x.type != b'mehd']
                                prefix_ok = gk[:len(sk_live)] == sk_live
                                base_n = len(sk_live)
                                if any(k.type == b'mehd' for x in gb.children for k in ([x] + list(x.children))):
                                    ctx.violation('%s: the live initialization segment still carries a mehd box' % url, inp)
                            else:
                                prefix_ok = gk[:len(sk)] == sk
                                base_n = len(sk)
                            if not prefix_ok:
                                ctx.violation('%s: the stored children of moov are not preserved byte for byte' % url, inp)
                                continue
                            extra = gb.children[base_n:]
                            if any(x.type != b'pssh' for x in extra):
                                ctx.violation('%s: moov gained %r' % (url, [x.type for x in extra]), inp)
                            psshs = [x for x in extra if x.type == b'pssh']
                        exp = expected_systems(sel) if enc else set()
                        have = set()
                        for p in psshs:
                            ver, flags, body = boxwalk.fullbox(p)
                            sysid = body[:16]
                            name = 'playready' if sysid == SYSTEM_IDS['playready'] else 'clearkey' if sysid in SYSTEM_IDS['clearkey'] else None
                            if name is None:
                                ctx.violation('%s: pssh with unexpected SystemID %s' % (url, sysid.hex()), inp)
                                continue
                            if name in have:
                                ctx.violation('%s: two pssh boxes for %s' % (url, name), inp)
                            have.add(name)
                            kid = kids[n]
                            kid_raw = getattr(kid, 'raw', None)
                            if kid_raw is not None and kid_raw not in bytes(p.raw) and kid_raw[3::-1] + kid_raw[5:3:-1] + kid_raw[7:5:-1] + kid_raw[8:] not in bytes(p.raw):
                                import base64
                                if base64.b64encode(kid_raw[3::-1] + kid_raw[5:3:-1] + kid_raw[7:5:-1] + kid_raw[8:]).decode().encode('utf-16-le') not in bytes(p.raw):
                                    ctx.violation('%s: the %s pssh does not name the track KID %s' % (url, name, kid_raw.hex()), inp)
                        if have != exp:
                            ctx.violation('%s: pssh boxes for %s, the request selects %s with moov among the locations'
                                          % (url, sorted(have) or 'no system', sorted(exp) or 'no system'), inp)
                        if have:
                            ctx.nontriv(url)
                        # ---------- model: stored init + these pssh boxes
                        reqs.append([2, 1 if mode == 'live' else 0, [list(p.raw) for p in psshs], list(stored[n])])
                        meta.append((inp, list(r.data)))
    res = common.run_model_parallel(4, reqs)
    ok = True
    for (inp, want), m in zip(meta, res):
        ctx.count('corr:init-bytes')
        if m != [want]:
            ok = False
            ctx.disagree('init-bytes', inp, (m[0][:40] if m else m), want[:40])
    ctx.oblige('correspondence:HTTP(init segments)-vs-BoxModel.rewrite_init', ok)
    env.close()


def replay(ctx, payload):
    for v in payload.get('violations', []):
        print('replay:', v['what'])
    print('re-run ./check C10 to reproduce (inputs are URLs on the fixture stream)')
    return 1 if payload.get('violations') else 0
