"""C14 - timed events are delivered exactly once and decode to their schedule.
Theorems: coq/Props/C14.v.  Correspondence: PingPongEvents / Scte35Events.create_emsg_boxes and
create_manifest_context vs Model/EventsModel.v; BinarySignal.encode / parse vs Model/Scte35Model.v;
crccheck's Crc32Mpeg2 vs Model/CrcModel.v.  Oracle: the schedule itself (start + k*interval)."""
from types import SimpleNamespace as NS

from .. import common

RULE = ('schedules: start in {0, inside, after, before the run}, interval 1..5000, count in {0,1,2,3,7}, event timescale in '
        '{1,100,1000,90000}, emsg v0/v1, inband on/off; segment layouts: regular and irregular durations, representation '
        'timescale in {240,1000,44100,90000}, runs of 3..40 consecutive segments (vod from 0 and live windows across a loop); '
        'SCTE-35: random field values at boundary widths (0, 1, 2^n-1) for splice_null / splice_insert / time_signal with avail, '
        'segmentation, time and unknown descriptors. Non-trivial: a run carrying >= 1 event, or a signal with >= 1 descriptor; '
        'distinct by input')

SUB_TYPES = (0x34, 0x36, 0x38, 0x3A)
PENDING = []      # (model request, implementation-side value, input) compared in one batch


# --------------------------------------------------------------------------- events
def gen_sched(rng):
    ets = rng.choice([1, 100, 1000, 90000])
    interval = rng.choice([1, 2, 7, 100, 250, 1000, 5000, rng.randint(1, 5000)])
    count = rng.choice([0, 0, 1, 2, 3, 7])
    start = rng.choice([0, 0, 1, interval, rng.randint(0, 20000), rng.randint(0, 10**6)])
    return {'start': start, 'interval': interval, 'count': count, 'timescale': ets, 'duration': rng.choice([0, 1, 200, 5000]),
            'version': rng.choice([0, 1]), 'inband': rng.random() < 0.85}


def gen_run(rng, sched):
    rts = rng.choice([240, 1000, 44100, 90000])
    n = rng.randint(3, 40)
    base = max(1, int(rts * rng.choice([0.5, 1, 2, 4])))
    if rng.random() < 0.5:
        durs = [base] * n
    else:
        durs = [max(1, rng.randint(base // 2, base * 2)) for _ in range(n)]
    # where does the run start relative to the schedule?
    s_rep = sched['start'] * rts // sched['timescale']
    r = rng.random()
    if r < 0.3:
        t0 = 0
    elif r < 0.6:
        t0 = max(0, s_rep - rng.randint(0, 3 * base))
    elif r < 0.8:
        k = rng.randint(0, max(1, sched['count'] or 5))
        t0 = max(0, (sched['start'] + k * sched['interval']) * rts // sched['timescale'] + rng.choice([0, 0, 1, -1]))
    else:
        t0 = rng.randint(0, 10**9)
    # keep the number of loop iterations per segment manageable
    per_seg = max(durs) * sched['timescale'] // rts // sched['interval']
    if per_seg > 3000:
        return None
    return {'rts': rts, 'durs': durs, 't0': t0}


def ev_class(kind):
    if kind == 'scte35':
        from dashlive.server.events.scte35_events import Scte35Events
        return Scte35Events
    from dashlive.server.events.ping_pong import PingPongEvents
    return PingPongEvents


def impl_emsg(kind, sched, rts, seg_start, dur):
    ev = ev_class(kind)(**sched)
    moof = NS(traf=NS(tfdt=NS(base_media_decode_time=seg_start)))
    rep = NS(timescale=rts, segments=[None, NS(duration=dur)])
    try:
        boxes = ev.create_emsg_boxes(segment_num=1, mod_segment=1, moof=moof, representation=rep)
    except Exception as e:  # noqa
        return ['CRASH', type(e).__name__], []
    out = []
    for b in boxes:
        t = b.presentation_time if b.version == 1 else b.presentation_time_delta
        out.append([b.event_id, t, b.version, bytes(b.data.data) if hasattr(b.data, 'data') else bytes(b.data)])
    return out, boxes


def model_sched(s, version=None):
    return [s['start'], s['interval'], s['count'], s['timescale'], s['duration'],
            s['version'] if version is None else version, 1 if s['inband'] else 0]


def events_suite(ctx, n):
    rng = ctx.rng
    ok = True
    reqs, meta = [], []
    for i in range(n):
        sched = gen_sched(rng)
        run = gen_run(rng, sched)
        if run is None:
            continue
        kind = 'scte35' if (i % 4 == 3 and sched['timescale'] > 1) else 'ping'
        t = run['t0']
        segs = []
        for d in run['durs']:
            a = t * sched['timescale'] // run['rts']
            b = (t + d) * sched['timescale'] // run['rts']
            segs.append((t, d, a, b))
            t += d
        eff_version = 1 if (kind == 'scte35' and sched['inband']) else sched['version']
        for (t, d, a, b) in segs:
            reqs.append([0, model_sched(sched), a, b])
        meta.append((kind, sched, run, segs, eff_version))
    mo = common.run_model_parallel(14, reqs)
    pos = 0
    for kind, sched, run, segs, eff_version in meta:
        ctx.count('corr:events-' + kind)
        got_all = []
        bad = False
        crashed = False
        for (t, d, a, b) in segs:
            out, boxes = impl_emsg(kind, sched, run['rts'], t, d)
            m = mo[pos]
            pos += 1
            if out and out[0] == 'CRASH':
                ctx.violation('create_emsg_boxes raised %s' % out[1], {'sched': sched, 'run': run, 'segment': [t, d]})
                bad = crashed = True
                continue
            inst = [[e[0], e[1] + a if e[2] == 0 else e[1]] for e in out]
            if inst != m:
                ok = False
                bad = True
                ctx.disagree('events', {'kind': kind, 'sched': sched, 'rts': run['rts'], 'segment': [t, d, a, b]}, m, inst)
            for e, (k, pt) in zip(out, inst):
                got_all.append((k, pt, a, b, e))
        if crashed:
            continue
        # ---- oracle (run even when the model disagrees: a disagreement is not yet a violation): exactly the scheduled events of [A, B), each once, in its own segment
        A, B = segs[0][2], segs[-1][3]
        want = []
        if sched['inband']:
            k = max(0, -((sched['start'] - A) // sched['interval']))      # first k with start + k*interval >= A
            while True:
                pt = sched['start'] + k * sched['interval']
                if pt >= B or (sched['count'] > 0 and k >= sched['count']):
                    break
                want.append((k, pt))
                k += 1
        have = [(k, pt) for (k, pt, a, b, e) in got_all]
        inp = {'kind': kind, 'sched': sched, 'rts': run['rts'], 't0': run['t0'], 'durs': run['durs']}
        if have != want:
            ctx.violation('run [%d,%d): carried events %r, schedule says %r' % (A, B, have[:6], want[:6]), inp)
        n_payload = 0
        for (k, pt, a, b, e) in got_all:
            if not (a <= pt < b):
                ctx.violation('event %d at %d delivered in the segment [%d,%d)' % (k, pt, a, b), inp)
            if e[2] != eff_version:
                ctx.violation('emsg version %d, schedule asks %d' % (e[2], eff_version), inp)
            if kind == 'ping' and e[3] != (b'ping' if k % 2 == 0 else b'pong'):
                ctx.violation('ping-pong payload of event %d is %r' % (k, e[3]), inp)
            if kind == 'scte35' and n_payload < 12:
                n_payload += 1
                check_scte35_payload(ctx, sched, k, pt, e[3], inp)
        if want:
            ctx.nontriv(('ev', kind, tuple(sorted(sched.items())), run['t0'], len(run['durs'])))
    if PENDING:
        res = common.run_model_parallel(14, [p[0] for p in PENDING])
        for (rq, val, inp), m in zip(PENDING, res):
            if m != val:
                ok = False
                ctx.disagree('scte35-fields', inp, m, val)
        del PENDING[:]
    ctx.oblige('correspondence:create_emsg_boxes-vs-EventsModel.emsg', ok)
    # ---- out-of-band listing
    ok2 = True
    scheds = []
    for _ in range(200 if ctx.quick() else 1500):
        sched = gen_sched(rng)
        sched['inband'] = rng.random() < 0.3
        scheds.append(sched)
    mres = common.run_model_parallel(14, [[1, model_sched(sc_)] for sc_ in scheds])
    for sched, m in zip(scheds, mres):
        ev = ev_class('ping')(**sched)
        stream = ev.create_manifest_context({})
        got = [[e['id'], e['presentationTime']] for e in stream.events]
        ctx.count('corr:manifest-events')
        if got != m:
            ok2 = False
            ctx.disagree('manifest-events', sched, m, got)
        want = [] if sched['inband'] else [[k, sched['start'] + k * sched['interval']] for k in range(sched['count'])]
        if got != want:
            ctx.violation('manifest lists %r, schedule says %r' % (got[:5], want[:5]), {'sched': sched})
    ctx.oblige('correspondence:create_manifest_context-vs-EventsModel.manifest_events', ok2)


def check_scte35_payload(ctx, sched, k, pt, data, inp):
    from dashlive.scte35.binarysignal import BinarySignal
    from dashlive.utils.buffered_reader import BufferedReader
    ctx.count('impl:scte35-payload')
    try:
        kw = BinarySignal.parse(BufferedReader(None, data=data), size=len(data))
    except Exception as e:  # noqa
        ctx.violation('SCTE-35 payload of event %d does not parse: %s' % (k, type(e).__name__), inp)
        return
    si = kw.get('splice_insert') or {}
    pts = (pt * 90000 // sched['timescale']) % (1 << 33)
    bdur = sched['duration'] * 90000 // sched['timescale']
    PENDING.append(([5, model_sched(sched), pt], [pts, bdur], {'sched': sched, 'pt': pt}))
    # the payload bytes themselves against Scte35Model.event_signal (program_id default 1620)
    PENDING.append(([6, model_sched(sched), 1620, k, pt], list(data), {'sched': sched, 'k': k, 'pt': pt}))
    if (not kw.get('crc_valid') or si.get('splice_event_id') != k or (si.get('splice_time') or {}).get('pts') != pts
            or (si.get('break_duration') or {}).get('duration') != bdur):
        ctx.violation('SCTE-35 payload of event %d: crc_valid=%r id=%r pts=%r break=%r, schedule gives id=%d pts=%d break=%d'
                      % (k, kw.get('crc_valid'), si.get('splice_event_id'), (si.get('splice_time') or {}).get('pts'),
                         (si.get('break_duration') or {}).get('duration'), k, pts, bdur), inp)


def params_suite(ctx, n):
    """EventBase / Scte35Events.check_parameters against EventsModel.params_ok / Scte35Model.scte35_params_ok: which schedules
    are accepted (everything else is answered 400), at the boundaries of every field"""
    from dashlive.server.events.scte35_events import Scte35Events
    from dashlive.server.events.ping_pong import PingPongEvents
    rng = ctx.rng
    edge = [0, 1, 2, 255, 256, 508, 509, 510, 511, 1000, 65535, 65536, 95443, 95444, 2**32 - 1, 2**32, 2**33, 10**7, 10**11, -1]
    reqs, meta = [], []
    for i in range(n):
        pick = lambda *more: rng.choice(edge + list(more))   # noqa
        sched = {'start': pick(), 'interval': pick(100, 1000), 'count': pick(3), 'timescale': pick(100, 90000), 'duration': pick(200),
                 'version': rng.choice([0, 1, 1, 2, -1]), 'inband': rng.random() < 0.8}
        if rng.random() < 0.5:      # mostly sane, one field at an edge
            base = {'start': 0, 'interval': 1000, 'count': 0, 'timescale': 100, 'duration': 200, 'version': 0, 'inband': True}
            f = rng.choice(sorted(base))
            base[f] = sched[f]
            sched = base
        scte = rng.random() < 0.6
        pid = rng.choice([1620, 0, 65535, 65536, -1, 70000])
        try:
            if scte:
                Scte35Events(program_id=pid, **sched).check_parameters()
            else:
                PingPongEvents(**sched).check_parameters()
            got = 1
        except ValueError:
            got = 0
        except Exception as e:  # noqa
            ctx.violation('check_parameters raised %s for %r' % (type(e).__name__, sched), {'sched': sched, 'scte35': scte, 'program_id': pid})
            continue
        ctx.count('impl:check-parameters')
        ctx.dist('check-parameters:%s' % ('accepted' if got else 'refused'))
        # Scte35Events forces version 1 for in-band schedules before the check
        ms = dict(sched)
        if scte and ms['inband']:
            ms['version'] = 1
        reqs.append([7, model_sched(ms), 1 if scte else 0, pid])
        meta.append(({'sched': sched, 'scte35': scte, 'program_id': pid}, got))
        if got:
            ctx.nontriv(('params', tuple(sorted(sched.items())), scte, pid))
    res = common.run_model_parallel(14, reqs)
    ok = True
    for (inp, got), m in zip(meta, res):
        if m != got:
            ok = False
            ctx.disagree('check_parameters', inp, m, got)
    ctx.oblige('correspondence:check_parameters-vs-EventsModel.params_ok/scte35_params_ok', ok)


def pts_sweep(ctx, n):
    """the splice time of a SCTE-35 event at presentation times of the size a live stream reaches (seconds since 1970 in the
    event timescale) for timescales that do not divide 90000: exact integer arithmetic, every event (Scte35Model.event_signal)"""
    from dashlive.server.events.scte35_events import Scte35Events
    rng = ctx.rng
    for i in range(n):
        ets = rng.choice([1000000, 10000000, 48000, 44100, 1001, 600, 3, 100, 90000])
        sched = {'start': 0, 'interval': rng.choice([1, 1000, ets]), 'count': rng.choice([0, 2, 7]), 'timescale': ets,
                 'duration': rng.choice([0, 1, ets * 30, rng.randrange(1, 95000 * ets)]), 'version': 1, 'inband': True}   # break_duration is a 33-bit field
        secs = rng.choice([rng.randrange(17 * 10**8, 19 * 10**8), rng.randrange(1, 10**6), rng.randrange(2**40, 2**41)])
        pt = secs * ets + rng.randrange(ets)
        k = rng.randrange(0, sched['count']) if sched['count'] else rng.randrange(0, 2**32)   # event ids stay below a positive count
        inp = {'sched': sched, 'k': k, 'pt': pt}
        ctx.count('impl:scte35-large-pts')
        try:
            data = Scte35Events(**sched).get_emsg_event_payload(k, pt)
        except Exception as e:  # noqa
            ctx.violation('SCTE-35 payload for presentation time %d (timescale %d) raised %s' % (pt, ets, type(e).__name__), inp)
            continue
        check_scte35_payload(ctx, sched, k, pt, bytes(data), inp)
        ctx.dist('large-pts:timescale=%d' % ets)
        ctx.nontriv(('pts', ets, pt))
    ok = True
    if PENDING:
        res = common.run_model_parallel(14, [p_[0] for p_ in PENDING])
        for (rq, val, inp), m in zip(PENDING, res):
            if m != val:
                ok = False
                ctx.disagree('scte35-fields (large presentation time)', inp, m, val)
        del PENDING[:]
    ctx.oblige('correspondence:Scte35Events.create_binary_signal(large times)-vs-Scte35Model.event_signal', ok)


# --------------------------------------------------------------------------- SCTE-35 codec
def width(rng, n):
    return rng.choice([0, 1, (1 << n) - 1, (1 << n) - 2, 1 << (n - 1), rng.randrange(1 << n)])


def gen_signal(rng):
    r = rng.random()
    if r < 0.15:
        cmd = [0]
    elif r < 0.3:
        cmd = [6, [] if rng.random() < 0.3 else [width(rng, 33)]]
    else:
        brk = [] if rng.random() < 0.3 else [rng.randint(0, 1), width(rng, 33)]
        cmd = [5, width(rng, 32), rng.randint(0, 1), [] if rng.random() < 0.2 else [width(rng, 33)], brk,
               width(rng, 16), width(rng, 8), width(rng, 8)]
    descs = []
    for _ in range(rng.choice([0, 1, 1, 2, 3])):
        t = rng.choice([0, 2, 2, 3, 9, 200])
        ident = rng.choice([0x43554549, width(rng, 32)])
        if t == 0:
            descs.append([0, ident, width(rng, 32)])
        elif t == 3:
            descs.append([3, ident, width(rng, 48), width(rng, 32), width(rng, 16)])
        elif t == 2:
            dnr = rng.randint(0, 1)
            upid = [] if rng.random() < 0.6 else [rng.randrange(256) for _ in range(rng.randint(1, 12))]
            ty = rng.choice([0x34, 0x36, 0x35, 0x10, 0x38, 0x3A, 0, 255])
            sub = ty in SUB_TYPES
            descs.append([2, ident, [width(rng, 32), [] if rng.random() < 0.4 else [width(rng, 40)], dnr,
                                     1 if dnr else rng.randint(0, 1), 1 if dnr else rng.randint(0, 1),
                                     1 if dnr else rng.randint(0, 1), 3 if dnr else rng.randint(0, 3),
                                     15 if not upid else width(rng, 8), upid, ty, width(rng, 8), width(rng, 8),
                                     width(rng, 8) if sub else 0, width(rng, 8) if sub else 0]])
        else:
            descs.append([t, ident, [rng.randrange(256) for _ in range(rng.randint(0, 9))]])
    return [0xFC, rng.randint(0, 3), rng.randint(0, 1), rng.randint(0, 1), width(rng, 8), width(rng, 6), width(rng, 33),
            width(rng, 8), width(rng, 12), cmd, descs]


def build_impl_signal(sig):
    from dashlive.scte35.binarysignal import BinarySignal
    from dashlive.scte35.splice_insert import SpliceInsert
    from dashlive.scte35 import descriptors as D
    tid, sap, ssi, priv, proto, alg, adj, cw, tier, cmd, descs = sig
    kw = dict(table_id=tid, sap_type=sap, section_syntax_indicator=bool(ssi), private_indicator=bool(priv),
              protocol_version=proto, encryption_algorithm=alg, pts_adjustment=adj, cw_index=cw, tier=tier)
    if cmd[0] == 6:
        kw['time_signal'] = {'pts': cmd[1][0] if cmd[1] else None}
    elif cmd[0] == 5:
        brk = None if not cmd[4] else {'auto_return': bool(cmd[4][0]), 'duration': cmd[4][1]}
        kw['splice_insert'] = SpliceInsert(splice_event_id=cmd[1], out_of_network_indicator=bool(cmd[2]),
                                           splice_time={'pts': cmd[3][0] if cmd[3] else None}, break_duration=brk,
                                           unique_program_id=cmd[5], avail_num=cmd[6], avails_expected=cmd[7])
    ds = []
    for d in descs:
        if d[0] == 0:
            ds.append(D.AvailDescriptor(identifier=d[1], provider_avail_id=d[2]))
        elif d[0] == 3:
            ds.append(D.TimeDescriptor(identifier=d[1], TAI_seconds=d[2], TAI_ns=d[3], UTC_offset=d[4]))
        elif d[0] == 2:
            f = d[2]
            ds.append(D.SegmentationDescriptor(
                identifier=d[1], segmentation_event_id=f[0], segmentation_duration=f[1][0] if f[1] else None,
                delivery_not_restricted_flag=bool(f[2]), web_delivery_allowed_flag=bool(f[3]),
                no_regional_blackout_flag=bool(f[4]), archive_allowed_flag=bool(f[5]), device_restrictions=f[6],
                segmentation_upid_type=f[7], segmentation_upid=bytes(f[8]) if f[8] else None, segmentation_type=f[9],
                segment_num=f[10], segments_expected=f[11], sub_segment_num=f[12], sub_segments_expected=f[13]))
        else:
            ds.append(D.SpliceDescriptor.from_kwargs(d[0], identifier=d[1], data=bytes(d[2])))
    kw['descriptors'] = ds
    return BinarySignal(**kw)


def canon_parsed(kw):
    """BinarySignal.parse dict -> the model's field list"""
    if kw.get('splice_schedule') is not None or kw.get('encrypted_packet'):
        return [-2]
    if kw.get('splice_insert') is not None:
        si = kw['splice_insert']
        if si is None or si.get('splice_event_cancel_indicator') or not si.get('program_splice_flag') or si.get('splice_immediate_flag'):
            return [-2]
        st = si.get('splice_time') or {}
        bd = si.get('break_duration')
        cmd = [5, si['splice_event_id'], int(si['out_of_network_indicator']), [] if st.get('pts') is None else [st['pts']],
               [] if bd is None else [int(bd['auto_return']), bd['duration']], si['unique_program_id'], si['avail_num'],
               si['avails_expected']]
    elif kw.get('time_signal') is not None:
        cmd = [6, [] if kw['time_signal'].get('pts') is None else [kw['time_signal']['pts']]]
    else:
        cmd = [0]
    ds = []
    for d in kw.get('descriptors', []):
        t = d['tag']
        if t == 0:
            ds.append([0, d['identifier'], d['provider_avail_id']])
        elif t == 3:
            ds.append([3, d['identifier'], d['TAI_seconds'], d['TAI_ns'], d['UTC_offset']])
        elif t == 2:
            if d.get('segmentation_event_cancel_indicator') or not d.get('program_segmentation_flag'):
                return [-2]
            ds.append([2, d['identifier'], [d['segmentation_event_id'],
                       [] if d.get('segmentation_duration') is None else [d['segmentation_duration']],
                       int(d['delivery_not_restricted_flag']), int(d['web_delivery_allowed_flag']),
                       int(d['no_regional_blackout_flag']), int(d['archive_allowed_flag']), d['device_restrictions'],
                       d['segmentation_upid_type'], list(d.get('segmentation_upid') or b''), d['segmentation_type'],
                       d['segment_num'], d['segments_expected'], d.get('sub_segment_num', 0), d.get('sub_segments_expected', 0)]])
        elif t in (1, 4):
            return [-2]
        else:
            ds.append([t, d['identifier'], list(d.get('data') or b'')])
    return [[kw['table_id'], kw['sap_type'], int(kw['section_syntax_indicator']), int(kw['private_indicator']),
             kw['protocol_version'], kw['encryption_algorithm'], kw['pts_adjustment'], kw['cw_index'], kw['tier'], cmd, ds],
            int(bool(kw.get('crc_valid')))]


def impl_parse(data):
    from dashlive.scte35.binarysignal import BinarySignal
    from dashlive.utils.buffered_reader import BufferedReader
    try:
        kw = BinarySignal.parse(BufferedReader(None, data=bytes(data)), size=len(data))
    except Exception as e:  # noqa
        return ['ERR', type(e).__name__]
    try:
        return canon_parsed(kw)
    except Exception as e:  # noqa
        return ['CANON', type(e).__name__, str(e)[:80]]


def scte35_suite(ctx, n):
    rng = ctx.rng
    sigs = [gen_signal(rng) for _ in range(n)]
    enc_m = common.run_model_parallel(14, [[2, s] for s in sigs])
    ok_e = ok_d = True
    datas = []
    for sig, m in zip(sigs, enc_m):
        ctx.count('corr:scte35-encode')
        try:
            data = list(build_impl_signal(sig).encode())
        except Exception as e:  # noqa
            ctx.violation('BinarySignal.encode raised %s on in-width field values' % type(e).__name__, {'signal': sig})
            continue
        if data != m:
            ok_e = False
            ctx.disagree('scte35-encode', {'signal': sig}, m[:40], data[:40])
        datas.append((sig, data))
    # decode: the encodings, plus byte-level mutations of them
    blobs = [(sig, d, 'encoded') for sig, d in datas]
    for sig, d in datas[: len(datas) // 3]:
        dd = list(d)
        r = rng.random()
        if r < 0.5 and dd:
            dd[rng.randrange(len(dd))] ^= 1 << rng.randrange(8)
        elif r < 0.8:
            dd = dd[:rng.randrange(len(dd) + 1)]
        else:
            dd += [rng.randrange(256) for _ in range(rng.randint(1, 5))]
        blobs.append((None, dd, 'mutated'))
    dec_m = common.run_model_parallel(14, [[3, d] for _, d, _ in blobs])
    crc_m = common.run_model_parallel(14, [[4, d] for _, d, _ in blobs[:300]])
    from crccheck.crc import Crc32Mpeg2
    for (sig, d, kind), m in zip(blobs, dec_m):
        ctx.count('corr:scte35-parse-' + kind)
        got = impl_parse(d)
        if got and got[0] == 'ERR':
            got = [-1]
        if got and got[0] == 'CANON':
            ctx.disagree('scte35-parse-canon', {'bytes': d}, m, got)
            ok_d = False
            continue
        if kind == 'mutated' and (m in ([-1], [-2]) or got in ([-1], [-2])):
            # outside the modelled shapes: only agreement on "accepted by both" is required
            if (m == [-1]) != (got == [-1]) and m != [-2] and got != [-2]:
                ok_d = False
                ctx.disagree('scte35-parse-mutated', {'bytes': d}, m, got)
            continue
        if got != m:
            ok_d = False
            ctx.disagree('scte35-parse', {'bytes': d, 'signal': sig}, m, got)
        if kind == 'encoded':
            # ---- oracle: encoding then parsing is the identity, CRC valid
            if got != [sig, 1]:
                ctx.violation('parse(encode(signal)) differs from the signal or its CRC is invalid', {'signal': sig}, got, [sig, 1])
            elif sig[10]:
                ctx.nontriv(('sig', repr(sig)))
    for (sig, d, kind), m in zip(blobs[:300], crc_m):
        ctx.count('corr:crc32')
        c = Crc32Mpeg2()
        c.process(d)
        if c.final() != m:
            ok_d = False
            ctx.disagree('crc32', {'bytes': d}, m, c.final())
    ctx.oblige('correspondence:BinarySignal.encode-vs-Scte35Model.enc_signal', ok_e)
    ctx.oblige('correspondence:BinarySignal.parse+Crc32Mpeg2-vs-Scte35Model.dec_signal', ok_d)


def run(ctx):
    import logging
    logging.disable(logging.CRITICAL)
    common.proof_step(ctx)
    ctx.trusted += ['bitstring (BitArray/ConstBitStream) and crccheck are libraries: the models are compared against their output, '
                    'not proved about them',
                    'SCTE-35 shapes outside the model (splice_schedule, component lists, DTMF/audio descriptors, encrypted packets) '
                    'are not generated and count as not modelled']
    ctx.assumptions += ['interval >= 1, count >= 0, run of consecutive segments (a_i+1 = b_i)',
                        'SCTE-35 round trip: field values within their bit widths, program splice / program segmentation']
    events_suite(ctx, 500 if ctx.quick() else 6000)
    pts_sweep(ctx, 400 if ctx.quick() else 6000)
    params_suite(ctx, 600 if ctx.quick() else 8000)
    scte35_suite(ctx, 600 if ctx.quick() else 8000)


def replay(ctx, payload):
    bad = 0
    for v in payload.get('violations', []):
        inp = v['input']
        if 'signal' in inp:
            try:
                data = list(build_impl_signal(inp['signal']).encode())
                got = impl_parse(data)
                print('replay: parse(encode) =', got)
                bad += 0 if got == [inp['signal'], 1] else 1
            except Exception as e:  # noqa
                print('replay: encode raised', type(e).__name__)
                bad += 1
        elif 'durs' in inp:
            t = inp['t0']
            allev = []
            for d in inp['durs']:
                out, _ = impl_emsg(inp['kind'], inp['sched'], inp['rts'], t, d)
                a = t * inp['sched']['timescale'] // inp['rts']
                allev += [[e[0], e[1] + a if e[2] == 0 else e[1]] for e in out if e and e[0] != 'CRASH']
                t += d
            print('replay: events carried by the run:', allev[:20])
            bad += 1
        else:
            print('replay: input', inp)
            bad += 1
    return 1 if bad else 0
