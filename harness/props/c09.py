"""C09 - successive manifests and MPD patches evolve consistently.
Theorems: coq/Props/C09.v (timeline agreement, window moves forward, publishTime monotone).
Correspondence: shared segment-core suites + pairs of instants on the implementation; HTTP:
manifest at T1, manifest and patch at T2 on the fixture stream, patch applied by the harness."""
import datetime

from .. import common, segcore as sc

RULE = ('pairs T1 < T2 of the same synthetic representation/options with delta from 1 us to several loops; '
        'HTTP: hand_made.mpd with patch=1 at T1, PatchLocation fetched at T2 (deltas: ms, one update period, a source loop, '
        'past the patch ttl), replace operations applied to the T1 document and compared with the full manifest at T2. '
        'Non-trivial: the two windows overlap in at least one entry; distinct by (representation, T1, delta)')


def pair_oracle(ctx, rep, tm1, tm2):
    r1, t1 = sc.build_impl(rep, tm1)
    r2, t2 = sc.build_impl(rep, tm2)
    a, b = sc.impl_timeline(r1), sc.impl_timeline(r2)
    if (a and a[0] == 'CRASH') or (b and b[0] == 'CRASH'):
        return False
    ctx.count('impl:pairs')
    da = {e[0]: e for e in a}
    common_n = 0
    for e in b:
        if e[0] in da:
            common_n += 1
            if da[e[0]] != e:
                ctx.violation('two manifests list the segment starting at %d differently' % e[0],
                              {'rep': rep, 'tm1': tm1, 'tm2': tm2}, da[e[0]], e)
    if a and b and b[0][0] < a[0][0]:
        young = tm1['elapsed'] < tm1['depth'] * 10**6 or tm2['elapsed'] < tm2['depth'] * 10**6
        ctx.violation('the listed window moved backward: first entry %d then %d' % (a[0][0], b[0][0]),
                      {'rep': rep, 'tm1': tm1, 'tm2': tm2}, key='young-stream' if young else None)
    if t2.publishTime < t1.publishTime or t2.availabilityStartTime < t1.availabilityStartTime:
        ctx.violation('publishTime / availabilityStartTime moved backward', {'rep': rep, 'tm1': tm1, 'tm2': tm2})
    # model: same pair
    return common_n > 0


def run(ctx):
    common.proof_step(ctx)
    ctx.trusted += ['float rounding modelled as exact rationals (float-boundary cases counted, not diffed)',
                    'patch application (RFC 5261 replace/add/remove selectors used by templates/patches/hand_made.xml) is done by the harness with lxml']
    ctx.assumptions += ['rep_ok; same options and same resolved availabilityStartTime at both instants']
    recs = sc.evaluate(ctx, 800 if ctx.quick() else 20000, live_ratio=1.0)
    rng = ctx.rng
    for rec in recs[:600 if ctx.quick() else 15000]:
        if rec['degenerate']:
            continue
        rep, tm1 = rec['rep'], rec['tm']
        lr_us = sc.rep_lr(rep) * 10**6 // rep['ts']
        delta = rng.choice([1, 1000, 10**6, 2 * 10**6, tm1['depth'] * 10**6 // 2, tm1['depth'] * 10**6, lr_us, lr_us + 1,
                            3 * lr_us + rng.randint(0, 10**6), rng.randint(1, max(2, 2 * tm1['depth'] * 10**6))])
        tm2 = dict(tm1, elapsed=tm1['elapsed'] + delta)
        if pair_oracle(ctx, rep, tm1, tm2):
            ctx.nontriv(sc.rep_key(rep) + (tm1['elapsed'], delta))
    from .. import patchhttp
    patchhttp.suite(ctx)


def replay(ctx, payload):
    bad = 0
    for v in payload.get('violations', []):
        inp = v['input']
        if 'tm1' in inp:
            r1, _ = sc.build_impl(inp['rep'], inp['tm1'])
            r2, _ = sc.build_impl(inp['rep'], inp['tm2'])
            print('T1:', sc.impl_timeline(r1)[:6]); print('T2:', sc.impl_timeline(r2)[:6])
        else:
            print('replay: HTTP-level input', inp)
        bad += 1
    return 1 if bad else 0
