"""C06 - static manifests describe the stored media completely and exactly.
Theorems: coq/Props/C06.v.  Correspondence: shared segment-core suites in vod mode, HTTP on the
fixture streams (every number, one before, one past the end; vod/odvod manifests).  Oracle: the
property text (enumeration, 404 past the end, prefix-sum decode times, declared duration, byte
ranges tile the file and start on segment boundaries found by the independent box walker)."""
import os

from .. import common, segcore as sc, boxwalk

FIX = '/repo/tests/fixtures'

RULE = ('synthetic representations in vod mode (as C02) with $Number$ over start-1..start+n and $Time$ of every static '
        'timeline entry; fixture files bbb_* and tears_*: indexed with Representation.load, SegmentList ranges compared '
        'with the box structure; HTTP: vod numbers of every fixture representation, vod/odvod manifests parsed and '
        'every enumerated segment fetched. Non-trivial: a case with >= 3 segments; distinct by representation')


def vod_oracle(ctx, rec):
    rep = rec['rep']
    if rec['live'] or rec['degenerate']:
        return
    n, sn, sd = len(rep['durs']), rep['start_number'], sc.rep_seg_dur(rep)
    r, timing = sc.build_impl(rep, rec['tm'])
    tl = rec['timeline']
    for k in range(sn - 1, sn + n + 1):
        out = sc.serve_from_index(rep, sc.impl_media_index(r, timing, None, k))
        ctx.count('impl:vod-number')
        inside = sn <= k < sn + n
        if out and out[0] == 'CRASH':
            ctx.violation('vod $Number$=%d raises %s' % (k, out[1]), {'rep': rep, 'tm': rec['tm'], 'q': [None, k]})
        elif inside and (not out or out[0] != k - sn + 1 or out[1] != sc.prefix(rep, k - sn) or out[3] != rep['durs'][k - sn]):
            ctx.violation('vod $Number$=%d served as %r' % (k, out), {'rep': rep, 'tm': rec['tm'], 'q': [None, k]})
        elif not inside and out:
            ctx.violation('vod $Number$=%d beyond the media is served: %r' % (k, out), {'rep': rep, 'tm': rec['tm'], 'q': [None, k]})
    for i, (t, d, m) in enumerate(tl):
        out = sc.serve_from_index(rep, sc.impl_media_index(r, timing, t, None))
        ctx.count('impl:vod-time')
        if i >= n:
            cls = 'vod-overshoot'
            if not out or out[0] == 'CRASH':
                ctx.violation('static timeline lists entry %d ($Time$=%d) but the representation has %d segments; the request is refused'
                              % (i + 1, t, n), {'rep': rep, 'tm': rec['tm'], 'q': [t, None]}, key=cls)
            continue
        if t != sc.prefix(rep, i) or d != rep['durs'][i] or m != i + 1:
            ctx.violation('static timeline entry %d is (t=%d, d=%d, segment %d); the stored track has t=%d, d=%d'
                          % (i + 1, t, d, m, sc.prefix(rep, i), rep['durs'][i]), {'rep': rep, 'tm': rec['tm'], 'q': [t, None]})
            continue
        if not out or out[0] == 'CRASH' or out[0] != m or out[1] != t:
            inside = i * sd <= t + sd // 4 < (i + 1) * sd
            ctx.violation('static timeline entry %d ($Time$=%d, segment %d) is answered with %r' % (i + 1, t, m, out),
                          {'rep': rep, 'tm': rec['tm'], 'q': [t, None]}, key=None if inside else 'irregular-vod-time')
    # declared duration = reference duration to the millisecond
    from dashlive.utils.date_time import toIsoDuration
    from ..manifesthttp import parse_duration_us
    txt = toIsoDuration(timing.mediaDuration)
    want = rep['ref_dur'] * 10**6 // rep['rts']
    ctx.count('impl:declared-duration')
    try:
        got = parse_duration_us(txt)
    except ValueError:
        got = None
    if got is None or abs(got - want) > 1000:
        ctx.violation('mediaPresentationDuration %r is not the reference duration %d us' % (txt, want), {'rep': rep, 'tm': rec['tm']})


def witnesses(ctx):
    """C06_refuted_irregular and C06_refuted_vod_overshoot on the real code"""
    for key, rep, t, i in [
        ('irregular-vod-time', {'ts': 1000, 'durs': [1000, 1000, 1000, 400, 1600], 'seg_dur': 1000, 'start_number': 1,
                                'rts': 1000, 'ref_dur': 5000, 'ref_nseg': 5, 'ref_seg_dur': 1000, 'kind': 'witness'}, 3400, 4),
        ('vod-overshoot', {'ts': 10, 'durs': [10, 10], 'seg_dur': 10, 'start_number': 1, 'rts': 10, 'ref_dur': 25,
                           'ref_nseg': 2, 'ref_seg_dur': 12, 'kind': 'witness'}, 20, 2)]:
        tm = {'elapsed': 10**7, 'depth': 10, 'leeway': 0, 'live': False}
        r, timing = sc.build_impl(rep, tm)
        tl = sc.impl_timeline(r)
        out = sc.serve_from_index(rep, sc.impl_media_index(r, timing, t, None))
        mo = sc.run_model([[2, sc.model_rep(rep)], sc.model_serve(rep, [0, 0, 0, 0, 0], t, None)])
        if tl != mo[0] or out != mo[1]:
            ctx.disagree('witness', {'rep': rep}, mo, [tl, out])
        listed = [e for e in tl if e[0] == t]
        if listed and (not out or out[0] != listed[0][2] or i >= len(rep['durs'])):
            ctx.violation('static timeline entry $Time$=%d (segment %d) is answered with %r' % (t, listed[0][2], out),
                          {'rep': rep, 'tm': tm, 'q': [t, None]}, key=key)


def fixture_ranges(ctx):
    """Representation.load on the real files; SegmentList must tile the file; each media range must
    begin on the first box of a segment and end on its last byte (independent walker)."""
    from dashlive.mpeg import mp4
    from dashlive.mpeg.dash.representation import Representation
    import io
    files = []
    for d in ('bbb', 'tears'):
        p = os.path.join('/repo/tests/fixtures', d)
        files += [os.path.join(p, f) for f in sorted(os.listdir(p)) if f.endswith('.mp4')]
    if ctx.quick():
        files = [f for f in files if '_enc' not in f]
    ok = True
    for path in files:
        data = open(path, 'rb').read()
        with open(path, 'rb', buffering=16384) as src:
            atoms = mp4.Mp4Atom.load(src)
        rep = Representation.load(os.path.basename(path), atoms)
        sl = rep.generateSegmentList()
        ranges = [(sl.init.start, sl.init.end)] + [(m.start, m.end) for m in sl.media]
        model = sc.run_model([[6, [[s.pos, s.size] for s in rep.segments]]])[0]
        ctx.count('fixture:segment-list')
        if [list(x) for x in ranges] != model:
            ok = False
            ctx.disagree('segment_list', {'file': path}, model[:4], ranges[:4])
        name = os.path.basename(path)
        if ranges[0][0] != 0:
            ctx.violation('%s: init range does not start at byte 0' % name, {'file': path})
        for (a, b), (a2, b2) in zip(ranges, ranges[1:]):
            if b + 1 != a2:
                ctx.violation('%s: ranges do not tile: %d-%d then %d-%d' % (name, a, b, a2, b2), {'file': path})
                break
        if ranges[-1][1] != len(data) - 1:
            ctx.violation('%s: last range ends at %d, file has %d bytes' % (name, ranges[-1][1], len(data)), {'file': path})
        boxes = boxwalk.parse(data)
        starts = {b.start: b.type for b in boxes}
        types = [b.type for b in boxes]
        has_styp = b'styp' in types
        first_box_of_segment = set()
        prev = None
        for b in boxes:
            if b.type == b'styp' or (b.type == b'moof' and prev not in (b'styp', b'sidx', b'emsg', b'prft')) or \
                    (b.type in (b'sidx', b'emsg', b'prft') and prev in (b'mdat', b'moov', b'free', b'ftyp') and not has_styp):
                first_box_of_segment.add(b.start)
            prev = b.type
        bad = [(a, starts.get(a)) for (a, _) in ranges[1:] if a not in first_box_of_segment]
        if bad:
            ctx.violation('%s: %d of %d media ranges do not start on the first box of a segment (e.g. offset %d is a %r; '
                          'the segment starts with its styp)' % (name, len(bad), len(ranges) - 1, bad[0][0], bad[0][1]),
                          {'file': path}, key='styp-grouping')
        ctx.nontriv(name)
    ctx.oblige('correspondence:generateSegmentList-vs-SegModel.segment_list', ok)


def run(ctx):
    common.proof_step(ctx)
    ctx.trusted += ['float rounding modelled as exact rationals', 'the indexer (Representation.load) is run on the fixture files, not modelled: '
                    'C06_ranges_tile takes the contiguity of its segment table as a premise, which the harness checks per file']
    ctx.assumptions += ['rep_ok', 'C06_vod_time_partial assumes the quarter-segment window (known finding: irregular-vod-time)']
    recs = sc.evaluate(ctx, 700 if ctx.quick() else 15000, live_ratio=0.0)
    for rec in recs:
        vod_oracle(ctx, rec)
    witnesses(ctx)
    fixture_ranges(ctx)
    from .. import seghttp
    seghttp.suite(ctx, 'C06')
    static_manifests(ctx)
    gapless_tracks(ctx)


def strip_tfdt(data):
    """a copy of a fragmented file in which no fragment has a tfdt box (the box is optional; the server then writes one when it
    serves a segment): the box is cut out of every moof, the sizes of moof and traf and trun.data_offset are reduced by its
    size; styp / sidx are dropped.  Own byte surgery on the independent walker's offsets."""
    import struct
    from .. import boxwalk
    out = bytearray()
    for b in boxwalk.parse(data):
        if b.type in (b'styp', b'sidx'):
            continue
        if b.type != b'moof':
            out += b.raw
            continue
        traf = b.find('traf')
        tfdt, trun = traf.find('tfdt'), traf.find('trun')
        raw = bytearray(b.raw)
        if tfdt is not None:
            def add32(abs_pos, delta):
                rel = abs_pos - b.start
                raw[rel:rel + 4] = struct.pack('>I', struct.unpack('>I', raw[rel:rel + 4])[0] + delta)
            if int.from_bytes(trun.payload[1:4], 'big') & 1:
                add32(trun.payload_start + 8, -tfdt.size)
            add32(traf.start, -tfdt.size)
            add32(b.start, -tfdt.size)
            rel = tfdt.start - b.start
            del raw[rel:rel + tfdt.size]
        out += raw
    return bytes(out)


def stored_track(data):
    """(first decode time or 0, [fragment durations]) of a stored fragmented file, by the independent walker"""
    from .. import boxwalk
    root = boxwalk.Root(data)
    dd = boxwalk.trex_default_duration(root)
    first, durs = None, []
    for b in root.children:
        if b.type != b'moof':
            continue
        traf = b.find('traf')
        th, tr = boxwalk.tfhd_fields(traf), boxwalk.trun_fields(traf)
        d0 = th['default_sample_duration'] if th['default_sample_duration'] is not None else dd
        durs.append(sum(s_.get('duration', d0 or 0) for s_ in tr['samples']))
        if first is None:
            first = boxwalk.tfdt_time(traf) or 0
    return first or 0, durs


def gapless_tracks(ctx):
    """the media segments of a static presentation, fetched in order over HTTP, form one gapless track: decode times start at
    the file's first decode time, each segment starts where the previous one ended, durations are the stored ones, the segment
    after the last answers 404.  Streams: the fixture as stored, and a copy whose audio / video fragments carry no tfdt box."""
    from ..appenv import AppEnv, Clock, utc
    from .. import boxwalk
    import logging
    env = AppEnv(ctx.workdir + '/gapless', streams=('bbb',))
    logging.disable(logging.CRITICAL)
    tmp = os.path.join(ctx.workdir, 'gapless-src')
    os.makedirs(tmp, exist_ok=True)
    files = {}
    for stem, new in (('bbb_v7', 'nt_v7'), ('bbb_a1', 'nt_a1'), ('bbb_a2', 'nt_a2')):
        src = os.path.join(FIX, 'bbb', stem + '.mp4')
        if not os.path.exists(src):
            continue
        path = os.path.join(tmp, new + '.mp4')
        with open(path, 'wb') as f:
            f.write(strip_tfdt(open(src, 'rb').read()))
        files[new] = path
    try:
        env.add_custom_stream('notfdt', files)
    except Exception as e:  # noqa
        ctx.violation('a stream whose fragments carry no tfdt box cannot be indexed: %s %s' % (type(e).__name__, str(e)[:100]),
                      {'files': sorted(files)})
        files = {}
    c = env.client()
    tracks = [('bbb', 'bbb_a1', os.path.join(FIX, 'bbb', 'bbb_a1.mp4')), ('bbb', 'bbb_v7', os.path.join(FIX, 'bbb', 'bbb_v7.mp4'))]
    tracks += [('notfdt', stem, path) for stem, path in sorted(files.items())]
    with Clock(utc(2024, 3, 5, 12, 0, 7)):
        for directory, stem, path in tracks:
            first, durs = stored_track(open(path, 'rb').read())
            ext = 'm4a' if '_a' in stem else 'm4v'
            with env.app.app_context():
                rep = env.models.MediaFile.get(name=stem).representation
                sn, dd = rep.start_number, None
            init = c.get('/dash/vod/%s/%s/init.%s' % (directory, stem, ext))
            if init.status_code == 200:
                dd = boxwalk.trex_default_duration(boxwalk.Root(init.data))
            expected, total, ok = first, 0, True
            for k in range(len(durs) + 1):
                url = '/dash/vod/%s/%s/%d.%s' % (directory, stem, sn + k, ext)
                r = c.get(url)
                ctx.count('http:gapless-segment')
                inp = {'url': url, 'stored_fragments': len(durs), 'tfdt_in_file': directory != 'notfdt'}
                if k == len(durs):
                    if r.status_code != 404:
                        ctx.violation('%s: the segment after the last stored one answers %d' % (url, r.status_code), inp)
                    continue
                if r.status_code != 200:
                    ctx.violation('%s: stored segment %d of %d answers %d' % (url, k + 1, len(durs), r.status_code), inp)
                    ok = False
                    break
                try:
                    sm = boxwalk.segment_summary(r.data, dd)
                except Exception as e:  # noqa
                    ctx.violation('%s: the served segment cannot be walked: %s' % (url, e), inp)
                    ok = False
                    break
                if sm['tfdt'] != expected:
                    ctx.violation('%s: decode time %s, the previous segment ended at %d (segment %d of %d%s)' % (
                        url, sm['tfdt'], expected, k + 1, len(durs), '' if directory != 'notfdt' else '; file without tfdt boxes'), inp)
                    ok = False
                if sm['duration'] != durs[k]:
                    ctx.violation('%s: lasts %d, the stored fragment lasts %d' % (url, sm['duration'], durs[k]), inp)
                    ok = False
                expected = (sm['tfdt'] if sm['tfdt'] is not None else expected) + sm['duration']
                total += sm['duration']
            if ok and total == sum(durs):
                ctx.nontriv(('gapless', directory, stem))
            ctx.dist('gapless:%s:%s' % (directory, 'ok' if ok else 'broken'))
    env.close()


def static_manifests(ctx):
    """vod / odvod manifests of the fixture stream: enumerated segments retrievable, declared duration"""
    from ..appenv import AppEnv, Clock, utc
    from ..manifesthttp import Mpd, NS, advertised_urls, local_path, parse_duration_us, subst
    from urllib.parse import urljoin
    import logging
    env = AppEnv(ctx.workdir + '/static', streams=('bbb',))
    logging.disable(logging.CRITICAL)
    c = env.client()
    with env.app.app_context():
        ref = env.models.Stream.get(directory='bbb').timing_reference
        ref_us = ref.media_duration * 10**6 // ref.timescale
    urls = ['/dash/vod/bbb/hand_made.mpd', '/dash/vod/bbb/hand_made.mpd?timeline=1', '/dash/vod/bbb/manifest_e.mpd',
            '/dash/odvod/bbb/manifest_vod_aiv.mpd']
    if not ctx.quick():
        urls += ['/dash/vod/bbb/manifest_a.mpd', '/dash/vod/bbb/manifest_h.mpd?timeline=1', '/dash/vod/bbb/manifest_i.mpd',
                 '/dash/vod/bbb/manifest_n.mpd', '/dash/vod/bbb/manifest_ef.mpd', '/dash/odvod/bbb/hand_made.mpd']
    with Clock(utc(2024, 3, 5, 12, 0, 7)):
        for url in urls:
            r = c.get(url)
            ctx.count('http:static-manifest')
            if r.status_code != 200:
                ctx.dist('static-manifest-status:%d' % r.status_code)
                continue
            mpd = Mpd(r.data, 'http://localhost' + url)
            mpdur = mpd.root.get('mediaPresentationDuration')
            if mpdur is not None:
                if abs(parse_duration_us(mpdur) - ref_us) > 1000:
                    ctx.violation('%s: mediaPresentationDuration %s, timing reference lasts %d us' % (url, mpdur, ref_us), {'url': url})
            else:
                tot = sum(parse_duration_us(p.get('duration')) for p in mpd.periods() if p.get('duration'))
                if abs(tot - ref_us) > 1000:
                    ctx.violation('%s: Period durations sum to %d us, timing reference lasts %d us' % (url, tot, ref_us), {'url': url})
            for rep in mpd.representations():
                st = rep['template']
                rid = rep['rep'].get('id')
                if st is not None and rep['timeline'] is not None and st.get('media') is not None:
                    with env.app.app_context():
                        nseg = env.models.MediaFile.get(name=rid).representation.num_media_segments
                    ents = rep['timeline']
                    for i, (t, d) in enumerate(ents[:3] + ents[-3:] if ctx.quick() else ents):
                        idx = i if i < 3 or not ctx.quick() else len(ents) - (6 - i) if len(ents) >= 6 else i
                        u = urljoin(rep['base'], subst(st.get('media'), rid, time=t, number=0))
                        rr = c.get(local_path(u))
                        ctx.count('http:static-timeline-entry')
                        if rr.status_code != 200:
                            ctx.violation('%s lists $Time$=%d for %s (entry %d of %d; %d stored segments) but it answers %d'
                                          % (url, t, rid, idx + 1, len(ents), nseg, rr.status_code), {'url': local_path(u)},
                                          key='vod-overshoot' if idx >= nseg else None)
                elif st is not None and st.get('duration'):
                    sn = int(st.get('startNumber', '1'))
                    with env.app.app_context():
                        nseg = env.models.MediaFile.get(name=rid).representation.num_media_segments
                    for k in ([sn, sn + 1, sn + nseg - 1, sn + nseg] if ctx.quick() else list(range(sn, sn + nseg + 1))):
                        u = urljoin(rep['base'], subst(st.get('media'), rid, number=k))
                        rr = c.get(local_path(u))
                        ctx.count('http:static-number')
                        if (k < sn + nseg) != (rr.status_code == 200) or (k >= sn + nseg and rr.status_code != 404):
                            ctx.violation('%s: $Number$=%d of %s answers %d' % (url, k, rid, rr.status_code), {'url': local_path(u)})
                else:
                    # SegmentList / SegmentBase with byte ranges
                    sl = rep['rep'].find('d:SegmentList', NS)
                    if sl is None:
                        continue
                    base = rep['base']
                    path = local_path(base)
                    init = sl.find('d:Initialization', NS)
                    rngs = [init.get('range')] + [s.get('mediaRange') for s in sl.findall('d:SegmentURL', NS)]
                    prev_end = -1
                    full = None
                    for i, rg in enumerate(rngs):
                        a, b = [int(x) for x in rg.split('-')]
                        if a != prev_end + 1:
                            ctx.violation('%s: %s range %d starts at %d, previous ended at %d' % (url, rid, i, a, prev_end), {'url': url})
                        prev_end = b
                        if ctx.quick() and 3 < i < len(rngs) - 2:
                            continue
                        rr = c.get(path, headers={'Range': 'bytes=%s' % rg})
                        ctx.count('http:odvod-range')
                        if rr.status_code != 206 or len(rr.data) != b - a + 1:
                            ctx.violation('%s: range %s of %s answers %d with %d bytes' % (url, rg, path, rr.status_code, len(rr.data)), {'url': path})
                    with env.app.app_context():
                        size = env.models.MediaFile.get(name=rid).blob.size
                    if prev_end != size - 1:
                        ctx.violation('%s: last range of %s ends at %d, file has %d bytes' % (url, rid, prev_end, size), {'url': url})
            ctx.nontriv(url)
    env.close()


def replay(ctx, payload):
    bad = 0
    for v in payload.get('violations', []):
        inp = v['input']
        if 'rep' in inp and 'q' in inp:
            r, timing = sc.build_impl(inp['rep'], inp['tm'])
            print('replay:', inp['q'], '->', sc.serve_from_index(inp['rep'], sc.impl_media_index(r, timing, inp['q'][0], inp['q'][1])))
        else:
            print('replay: input', inp)
        bad += 1
    return 1 if bad else 0
