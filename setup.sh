#!/bin/bash
# Offline build of the whole framework from files on disk: regenerate Gen/*.v from /repo,
# full .vo build of the Coq development (never -vos), extraction, OCaml model runner.
HERE="$(cd "$(dirname "$0")" && pwd)"
cd "$HERE"
export PYTHONPATH="/repo:$HERE/harness/shims:$HERE"
export PYTHONHASHSEED=0 PYTHONDONTWRITEBYTECODE=1 DASHLIVE_VERIF=1
mkdir -p .work replays evidence coq/Gen
/venv/bin/python -W ignore -m harness.setup 2>&1 | grep -v conda
exit ${PIPESTATUS[0]}
